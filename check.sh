#!/bin/sh
# usage: check.sh <property id> <quick|thorough>
# Rebuilds the simulator against /repo's current working tree, then runs the check.
# exit 0: property held on everything explored; 1: VIOLATION line printed; 2: harness/build error
here="$(cd "$(dirname "$0")" && pwd)"
id="$1"; tier="${2:-${VERIF_TIER:-quick}}"
cd "$here/dsim" || exit 2
if ! CARGO_NET_OFFLINE=true cargo build --release --offline >build.log 2>&1; then
  # the default build embeds CPython to run the crate's real Python binding; where that part
  # cannot be built (no libpython3.11, no pyo3 in the cargo cache) the checks run without it
  echo "note: build with the Python binding failed, building without it (see dsim/build.log)" >&2
  cp build.log build-pybinding.log
  if ! CARGO_NET_OFFLINE=true cargo build --release --offline --no-default-features >build.log 2>&1; then
    echo "harness error: building dsim against /repo failed:"; tail -40 build.log; exit 2
  fi
fi
cd "$here" || exit 2
exec "$here/dsim/target/release/dsim" check "$id" --tier "$tier" --verif-dir "$here"
