// With the `pybinding` feature the crate under test is built as a Python extension module
// (its `src/py` is only compiled that way); such a build leaves libpython's symbols
// unresolved, so the simulator's binary links the system libpython itself.
fn main() {
    println!("cargo:rerun-if-changed=build.rs");
    if std::env::var("CARGO_FEATURE_PYBINDING").is_ok() {
        println!("cargo:rustc-link-search=native=/usr/lib/x86_64-linux-gnu");
        println!("cargo:rustc-link-lib=dylib=python3.11");
    }
}
