//! splitmix64 + xoshiro256**: the only source of randomness in dsim.

#[derive(Clone, Debug)]
pub struct Rng {
    s: [u64; 4],
}

pub fn splitmix(x: &mut u64) -> u64 {
    *x = x.wrapping_add(0x9E3779B97F4A7C15);
    let mut z = *x;
    z = (z ^ (z >> 30)).wrapping_mul(0xBF58476D1CE4E5B9);
    z = (z ^ (z >> 27)).wrapping_mul(0x94D049BB133111EB);
    z ^ (z >> 31)
}

/// Mix two integers into one seed (used for per-run / per-stream derivation).
pub fn mix(a: u64, b: u64) -> u64 {
    let mut x = a ^ b.wrapping_mul(0xD6E8FEB86659FD93).rotate_left(23);
    let r = splitmix(&mut x);
    r ^ splitmix(&mut x)
}

impl Rng {
    pub fn new(seed: u64) -> Rng {
        let mut x = seed;
        Rng {
            s: [
                splitmix(&mut x),
                splitmix(&mut x),
                splitmix(&mut x),
                splitmix(&mut x),
            ],
        }
    }
    pub fn next_u64(&mut self) -> u64 {
        let r = self.s[1].wrapping_mul(5).rotate_left(7).wrapping_mul(9);
        let t = self.s[1] << 17;
        self.s[2] ^= self.s[0];
        self.s[3] ^= self.s[1];
        self.s[1] ^= self.s[2];
        self.s[0] ^= self.s[3];
        self.s[2] ^= t;
        self.s[3] = self.s[3].rotate_left(45);
        r
    }
    /// uniform in 0..n (n > 0)
    pub fn below(&mut self, n: u64) -> u64 {
        if n <= 1 {
            return 0;
        }
        // multiply-shift; bias irrelevant here
        ((self.next_u64() as u128 * n as u128) >> 64) as u64
    }
    pub fn range(&mut self, lo: u64, hi_incl: u64) -> u64 {
        lo + self.below(hi_incl - lo + 1)
    }
    pub fn chance(&mut self, num: u64, den: u64) -> bool {
        self.below(den) < num
    }
    pub fn pick<'a, T>(&mut self, v: &'a [T]) -> &'a T {
        &v[self.below(v.len() as u64) as usize]
    }
    pub fn weighted(&mut self, w: &[u32]) -> usize {
        let tot: u64 = w.iter().map(|x| *x as u64).sum();
        if tot == 0 {
            return 0;
        }
        let mut r = self.below(tot);
        for (i, x) in w.iter().enumerate() {
            if r < *x as u64 {
                return i;
            }
            r -= *x as u64;
        }
        w.len() - 1
    }
    pub fn fill(&mut self, buf: &mut [u8]) {
        for ch in buf.chunks_mut(8) {
            let v = self.next_u64().to_le_bytes();
            ch.copy_from_slice(&v[..ch.len()]);
        }
    }
}

pub fn fnv1a(h: &mut u64, bytes: &[u8]) {
    for b in bytes {
        *h ^= *b as u64;
        *h = h.wrapping_mul(0x100000001b3);
    }
}
pub const FNV_INIT: u64 = 0xcbf29ce484222325;
