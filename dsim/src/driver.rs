//! Driver: worker processes, aggregation, evidence, replay and minimisation.

use crate::common::{load_known, KnownFinding, Probes, Prop, ReplayFile, RunReport};
use crate::prng::{mix, Rng};
use crate::tape::{Tape, TapeEntry};
use serde::{Deserialize, Serialize};
use serde_json::json;
use std::collections::{BTreeMap, HashSet};
use std::io::{BufRead, BufReader, Write};
use std::process::{Command, Stdio};
use std::time::{Duration, Instant};

pub const DEFAULT_SEED: u64 = 20260923;

pub fn run_seed(verif_seed: u64, idx: u64) -> u64 {
    mix(verif_seed, idx)
}

pub fn sandbox_init() -> String {
    let base = std::env::var("DSIM_SANDBOX").unwrap_or_else(|_| {
        if std::path::Path::new("/dev/shm").is_dir() {
            "/dev/shm".to_string()
        } else {
            std::env::temp_dir().to_string_lossy().into_owned()
        }
    });
    let dir = format!("{}/dsim-{}", base, std::process::id());
    let _ = std::fs::remove_dir_all(&dir);
    std::fs::create_dir_all(&dir).expect("create sandbox");
    let canon = std::fs::canonicalize(&dir).unwrap();
    std::env::set_current_dir(&canon).expect("chdir sandbox");
    let s = canon.to_string_lossy().into_owned();
    crate::seam::set_root(&s);
    s
}

/// All threads of a worker take turns, so they are fastest on one CPU (a futex hand-off on
/// the same core is a plain context switch, no cross-CPU wake-up).
pub fn pin_to_cpu(k: u64) {
    // no transparent huge pages in the workers: with them a forked actor copies 2 MiB per
    // touched page and the workers serialise in the kernel's huge page allocator
    if std::env::var("DSIM_THP").is_err() {
        unsafe { libc::prctl(41 /* PR_SET_THP_DISABLE */, 1, 0, 0, 0) };
    }
    if std::env::var("DSIM_NO_PIN").is_ok() {
        return;
    }
    unsafe {
        let n = libc::sysconf(libc::_SC_NPROCESSORS_ONLN).max(1) as u64;
        let mut set: libc::cpu_set_t = std::mem::zeroed();
        libc::CPU_SET((k % n) as usize, &mut set);
        libc::sched_setaffinity(0, std::mem::size_of::<libc::cpu_set_t>(), &set);
    }
}

fn sandbox_base() -> String {
    std::env::var("DSIM_SANDBOX").unwrap_or_else(|_| {
        if std::path::Path::new("/dev/shm").is_dir() {
            "/dev/shm".to_string()
        } else {
            std::env::temp_dir().to_string_lossy().into_owned()
        }
    })
}

/// A worker that was killed could not remove its sandbox; its parent does.
pub fn sandbox_reap(pid: u32) {
    let _ = std::fs::remove_dir_all(format!("{}/dsim-{}", sandbox_base(), pid));
}

pub fn sandbox_done(root: &str) {
    let _ = std::env::set_current_dir("/");
    let _ = std::fs::remove_dir_all(root);
}

fn exec_one<P: Prop>(
    verif_seed: u64,
    idx: u64,
    thorough: bool,
) -> (P::W, u64, Result<RunReport, String>) {
    let rs = run_seed(verif_seed, idx);
    let mut rng = Rng::new(mix(rs, 1));
    let wl = P::generate(&mut rng, thorough, idx);
    let mut tape = Tape::generate(mix(rs, 2));
    let ent = mix(rs, 3);
    let r = P::run(&wl, &mut tape, ent);
    // debugging aid: DSIM_DUMP_EVENTS=<run index> writes that run's event log to stderr
    if let (Ok(want), Ok(rep)) = (std::env::var("DSIM_DUMP_EVENTS"), &r) {
        if want.parse::<u64>().ok() == Some(idx) {
            for e in rep.events.iter() {
                eprintln!(
                    "EV {} a{} {:?} {} | {} len={} {:?} -> {} errno={}",
                    e.step, e.actor, e.kind, e.path, e.path2, e.len, e.action, e.ret, e.errno
                );
            }
        }
    }
    (wl, ent, r)
}

fn replay_run<P: Prop>(wl: &P::W, tape: &[TapeEntry], ent: u64) -> Result<RunReport, String> {
    let mut t = Tape::replay(tape.to_vec());
    P::run(wl, &mut t, ent)
}

// ---------------------------------------------------------------------------------------
// minimiser
// ---------------------------------------------------------------------------------------

pub fn minimise<P: Prop>(
    wl: &P::W,
    tape: &[TapeEntry],
    ent: u64,
    invariant: &str,
    known: &[KnownFinding],
    budget: Duration,
) -> (P::W, Vec<TapeEntry>, RunReport, u32) {
    let t0 = Instant::now();
    let mut tried = 0u32;
    let mut best_w = wl.clone();
    let mut best_t = tape.to_vec();
    let mut best_r = match replay_run::<P>(&best_w, &best_t, ent) {
        Ok(r) if r.violation.as_ref().map(|v| v.invariant.as_str()) == Some(invariant) => r,
        _ => {
            // does not even reproduce in-process: leave as is, the driver will notice
            let r = RunReport {
                violation: None,
                events: vec![],
                tape: tape.to_vec(),
                distinct_key: 0,
                log_hash: 0,
                nontrivial: false,
                truncated: false,
                steps: 0,
                sim_ns: 0,
                probes: Probes::default(),
                panics: vec![],
                detail: json!(null),
                extra_keys: vec![],
            };
            return (best_w, best_t, r, 0);
        }
    };
    best_t = best_r.tape.clone();
    let mut test = |w: &P::W, t: &[TapeEntry], tried: &mut u32| -> Option<RunReport> {
        *tried += 1;
        match replay_run::<P>(w, t, ent) {
            Ok(r) => {
                let same = r.violation.as_ref().map(|v| v.invariant.as_str()) == Some(invariant);
                if same && P::known_finding(w, &r, known).is_none() {
                    Some(r)
                } else {
                    None
                }
            }
            Err(_) => None,
        }
    };
    loop {
        let mut changed = false;
        // 1. tape: zero all non-zero entries, then halves .. single entries
        let mut chunk = best_t.iter().filter(|e| e.2 != 0).count();
        while chunk >= 1 && t0.elapsed() <= budget {
            let mut i = 0;
            loop {
                let nz: Vec<usize> = best_t
                    .iter()
                    .enumerate()
                    .filter(|(_, e)| e.2 != 0)
                    .map(|(i, _)| i)
                    .collect();
                if i >= nz.len() || t0.elapsed() > budget {
                    break;
                }
                let mut cand = best_t.clone();
                for k in nz[i..(i + chunk).min(nz.len())].iter() {
                    cand[*k].2 = 0;
                }
                if let Some(r) = test(&best_w, &cand, &mut tried) {
                    best_t = r.tape.clone();
                    best_r = r;
                    changed = true;
                    // same i: the window now covers the following entries
                } else {
                    i += chunk;
                }
            }
            if chunk == 1 {
                break;
            }
            chunk /= 2;
        }
        // 2. workload
        let mut progress = true;
        while progress && t0.elapsed() <= budget {
            progress = false;
            for cand in P::shrink(&best_w) {
                if t0.elapsed() > budget {
                    break;
                }
                if let Some(r) = test(&cand, &best_t, &mut tried) {
                    best_w = cand;
                    best_t = r.tape.clone();
                    best_r = r;
                    progress = true;
                    changed = true;
                    break;
                }
            }
        }
        if !changed || t0.elapsed() > budget {
            break;
        }
    }
    (best_w, best_t, best_r, tried)
}

// ---------------------------------------------------------------------------------------
// worker
// ---------------------------------------------------------------------------------------

#[derive(Serialize, Deserialize, Default)]
pub struct WorkerSummary {
    pub runs: u64,
    pub steps: u64,
    pub sim_ns: u64,
    pub nontrivial: u64,
    pub truncated: u64,
    pub panics: u64,
    pub panic_samples: Vec<String>,
    pub keys: Vec<u64>,
    #[serde(default)]
    pub keys2: Vec<u64>,
    pub probes: Probes,
    pub samples: Vec<serde_json::Value>,
    pub known: BTreeMap<String, (u64, String)>,
    pub stopped_early: bool,
}

#[derive(Serialize, Deserialize)]
pub enum WorkerMsg {
    Begin(u64),
    /// a violating run as found, sent before the worker starts minimising it (which may
    /// take long, or get the worker killed): the parent falls back on it
    Candidate(Box<ReplayFile>),
    Violation(Box<ReplayFile>, Box<ReplayFile>),
    Harness(String),
    Summary(Box<WorkerSummary>),
    Done,
}

fn emit(m: &WorkerMsg) {
    let s = serde_json::to_string(m).unwrap();
    let out = std::io::stdout();
    let mut l = out.lock();
    let _ = writeln!(l, "{}", s);
    let _ = l.flush();
}

fn mk_replay<P: Prop>(
    verif_seed: u64,
    idx: u64,
    ent: u64,
    thorough: bool,
    minimised: bool,
    w: &P::W,
    r: &RunReport,
) -> ReplayFile {
    let v = r.violation.clone().unwrap();
    ReplayFile {
        property: P::id().to_string(),
        invariant: v.invariant,
        message: v.message,
        verif_seed,
        run_index: idx,
        entropy_seed: ent,
        thorough,
        minimised,
        known_finding: None,
        history: vec![],
        workload: serde_json::to_value(w).unwrap(),
        tape: r.tape.clone(),
        events: r.events.clone(),
        detail: r.detail.clone(),
    }
}

pub fn worker<P: Prop>(
    verif_dir: &str,
    verif_seed: u64,
    thorough: bool,
    start: u64,
    stride: u64,
    total: u64,
    max_seconds: u64,
) -> i32 {
    let known = load_known(verif_dir);
    pin_to_cpu(start);
    let root = sandbox_init();
    P::init_process();
    let t0 = Instant::now();
    let mut sum = WorkerSummary::default();
    let mut keys: HashSet<u64> = HashSet::new();
    let mut keys2: HashSet<u64> = HashSet::new();
    let mut last_flush = Instant::now();
    let mut idx = start;
    let mut code = 0;
    while idx < total {
        if t0.elapsed().as_secs() >= max_seconds {
            sum.stopped_early = true;
            break;
        }
        emit(&WorkerMsg::Begin(idx));
        let (wl, ent, r) = exec_one::<P>(verif_seed, idx, thorough);
        match r {
            Err(e) => {
                emit(&WorkerMsg::Harness(format!("run {}: {}", idx, e)));
                code = 2;
                break;
            }
            Ok(rep) => {
                sum.runs += 1;
                sum.steps += rep.steps as u64;
                sum.sim_ns += rep.sim_ns;
                sum.probes.merge(&rep.probes);
                if rep.truncated {
                    sum.truncated += 1;
                }
                if !rep.panics.is_empty() {
                    sum.panics += rep.panics.len() as u64;
                    if sum.panic_samples.len() < 3 {
                        sum.panic_samples
                            .push(format!("run {}: {:?}", idx, rep.panics[0]));
                    }
                }
                keys2.extend(rep.extra_keys.iter().copied());
                if rep.nontrivial {
                    sum.nontrivial += 1;
                    keys.insert(rep.distinct_key);
                    if sum.samples.len() < 2 {
                        sum.samples.push(json!({
                            "run_index": idx,
                            "workload": serde_json::to_value(&wl).unwrap(),
                            "events": rep.events.iter().take(60).map(|e| format!(
                                "{} a{} {:?} {} {} len={} {:?} -> {}{}", e.step, e.actor, e.kind, e.path, e.path2, e.len, e.action, e.ret,
                                if e.errno != 0 { format!(" errno={}", e.errno) } else { String::new() })).collect::<Vec<_>>(),
                            "detail": rep.detail,
                        }));
                    }
                }
                if rep.violation.is_some() {
                    if let Some(k) = P::known_finding(&wl, &rep, &known) {
                        let v = rep.violation.as_ref().unwrap();
                        let e = sum
                            .known
                            .entry(k)
                            .or_insert((0, format!("run {}: {}", idx, v.message)));
                        e.0 += 1;
                    } else if std::env::var("DSIM_COUNT_ONLY").is_ok() {
                        // measurement aid (never used by the registered checks): count
                        // violating runs instead of stopping at the first one
                        let v = rep.violation.as_ref().unwrap();
                        sum.probes
                            .hit(&format!("violating_runs_{}", v.invariant));
                    } else {
                        let orig = mk_replay::<P>(verif_seed, idx, ent, thorough, false, &wl, &rep);
                        let inv = rep.violation.as_ref().unwrap().invariant.clone();
                        emit(&WorkerMsg::Candidate(Box::new(orig.clone())));
                        let (mw, _mt, mr, _tried) = minimise::<P>(
                            &wl,
                            &rep.tape,
                            ent,
                            &inv,
                            &known,
                            Duration::from_secs(if thorough { 180 } else { 60 }),
                        );
                        let min = if mr.violation.is_some() {
                            mk_replay::<P>(verif_seed, idx, ent, thorough, true, &mw, &mr)
                        } else {
                            orig.clone()
                        };
                        emit(&WorkerMsg::Violation(Box::new(min), Box::new(orig)));
                        code = 1;
                        break;
                    }
                }
            }
        }
        idx += stride;
        // flush what has been gathered so far, so that a worker killed by the code under
        // test (or by the per-run time limit) loses nothing but the run that killed it
        if last_flush.elapsed() > Duration::from_millis(300) {
            let mut part = std::mem::take(&mut sum);
            part.keys = keys.drain().collect();
            part.keys2 = keys2.drain().collect();
            emit(&WorkerMsg::Summary(Box::new(part)));
            last_flush = Instant::now();
        }
    }
    sum.keys = keys.into_iter().collect();
    sum.keys2 = keys2.into_iter().collect();
    emit(&WorkerMsg::Summary(Box::new(sum)));
    emit(&WorkerMsg::Done);
    sandbox_done(&root);
    code
}

// ---------------------------------------------------------------------------------------
// replay
// ---------------------------------------------------------------------------------------

/// exit 0: no violation; 1: the recorded violation reproduced; 3: a different outcome while
/// `expect` demanded the recorded one; 2: harness error.
pub fn replay<P: Prop>(verif_dir: &str, file: &str, expect: bool) -> i32 {
    let known = load_known(verif_dir);
    let s = match std::fs::read_to_string(file) {
        Ok(s) => s,
        Err(e) => {
            eprintln!("cannot read {}: {}", file, e);
            return 2;
        }
    };
    let rf: ReplayFile = match serde_json::from_str(&s) {
        Ok(r) => r,
        Err(e) => {
            eprintln!("bad replay file {}: {}", file, e);
            return 2;
        }
    };
    let wl: P::W = match serde_json::from_value(rf.workload.clone()) {
        Ok(w) => w,
        Err(e) => {
            eprintln!("bad workload in {}: {}", file, e);
            return 2;
        }
    };
    let root = sandbox_init();
    P::init_process();
    for h in rf.history.iter() {
        // earlier runs of the same process; only their side effects matter
        let _ = exec_one::<P>(rf.verif_seed, *h, rf.thorough);
    }
    let r = replay_run::<P>(&wl, &rf.tape, rf.entropy_seed);
    sandbox_done(&root);
    match r {
        Err(e) => {
            eprintln!("harness error: {}", e);
            2
        }
        Ok(rep) => match &rep.violation {
            Some(v) => {
                let same_inv = v.invariant == rf.invariant;
                let same_msg = v.message == rf.message;
                let same_log = rep.events.len() == rf.events.len()
                    && crate::sched::hash_events(&rep.events)
                        == crate::sched::hash_events(&rf.events);
                println!(
                    "replay: invariant={} message={:?} same_invariant={} same_message={} same_event_log={}",
                    v.invariant, v.message, same_inv, same_msg, same_log
                );
                if let Some(k) = P::known_finding(&wl, &rep, &known) {
                    println!("KNOWN-FINDING: property={} {}", P::id(), k);
                    return if expect { 3 } else { 0 };
                }
                if same_inv && same_msg && same_log {
                    println!("VIOLATION property={} replay={}", P::id(), file);
                    1
                } else if expect {
                    3
                } else {
                    println!("VIOLATION property={} replay={}", P::id(), file);
                    1
                }
            }
            None => {
                println!("replay: no violation on this tree");
                if expect {
                    3
                } else {
                    0
                }
            }
        },
    }
}

/// `dsim show-workload <id> <seed> <tier> <idx>`: print the generated workload of one run
pub fn show_workload<P: Prop>(verif_seed: u64, thorough: bool, idx: u64) -> i32 {
    let root = sandbox_init();
    P::init_process();
    let rs = run_seed(verif_seed, idx);
    let mut rng = Rng::new(mix(rs, 1));
    let wl = P::generate(&mut rng, thorough, idx);
    println!("{}", serde_json::to_string_pretty(&wl).unwrap());
    sandbox_done(&root);
    0
}

/// `dsim minimise <file>`: shrink a replay file (any violation it produces), write <file>.min.json
pub fn minimise_file<P: Prop>(verif_dir: &str, file: &str, budget_s: u64) -> i32 {
    let known = load_known(verif_dir);
    let rf: ReplayFile = match std::fs::read_to_string(file)
        .ok()
        .and_then(|s| serde_json::from_str(&s).ok())
    {
        Some(r) => r,
        None => {
            eprintln!("cannot read replay file {}", file);
            return 2;
        }
    };
    let wl: P::W = match serde_json::from_value(rf.workload.clone()) {
        Ok(w) => w,
        Err(e) => {
            eprintln!("bad workload: {}", e);
            return 2;
        }
    };
    let root = sandbox_init();
    P::init_process();
    let first = match replay_run::<P>(&wl, &rf.tape, rf.entropy_seed) {
        Ok(r) => r,
        Err(e) => {
            eprintln!("harness error: {}", e);
            sandbox_done(&root);
            return 2;
        }
    };
    let inv = match &first.violation {
        Some(v) => v.invariant.clone(),
        None => {
            println!("no violation to minimise");
            sandbox_done(&root);
            return 0;
        }
    };
    let (mw, _mt, mr, tried) = minimise::<P>(
        &wl,
        &first.tape,
        rf.entropy_seed,
        &inv,
        &known,
        Duration::from_secs(budget_s),
    );
    sandbox_done(&root);
    let out = mk_replay::<P>(rf.verif_seed, rf.run_index, rf.entropy_seed, rf.thorough, true, &mw, &mr);
    let path = format!("{}.min.json", file.trim_end_matches(".json"));
    std::fs::write(&path, serde_json::to_string_pretty(&out).unwrap()).ok();
    println!("minimised after {} candidate runs: {}", tried, path);
    0
}

// ---------------------------------------------------------------------------------------
// driver
// ---------------------------------------------------------------------------------------

pub struct CheckOpts {
    pub verif_dir: String,
    pub seed: u64,
    pub thorough: bool,
    pub workers: u64,
    pub runs: Option<u64>,
    pub max_seconds: u64,
    pub write_evidence: bool,
}

struct Agg {
    sum: WorkerSummary,
    keys: HashSet<u64>,
    keys2: HashSet<u64>,
    aborted: Vec<(u64, String)>,
    violations: Vec<(ReplayFile, ReplayFile, u64)>,
    harness: Vec<String>,
}

pub fn check<P: Prop>(o: &CheckOpts) -> i32 {
    let t0 = Instant::now();
    let exe = std::env::current_exe().expect("current_exe");
    let total = o.runs.unwrap_or_else(|| P::runs_for_tier(o.thorough));
    let workers = o.workers.max(1).min(total.max(1));
    println!(
        "dsim check {} tier={} seed={} runs={} workers={}",
        P::id(),
        if o.thorough { "thorough" } else { "quick" },
        o.seed,
        total,
        workers
    );
    let mut handles = Vec::new();
    for k in 0..workers {
        let exe = exe.clone();
        let vd = o.verif_dir.clone();
        let seed = o.seed;
        let thorough = o.thorough;
        let max_s = o.max_seconds;
        let id = P::id().to_string();
        handles.push(std::thread::spawn(move || {
            let mut agg = Agg {
                sum: WorkerSummary::default(),
                keys: HashSet::new(),
                keys2: HashSet::new(),
                aborted: vec![],
                violations: vec![],
                harness: vec![],
            };
            let mut start = k;
            let mut startup_failures = 0;
            let t_start = Instant::now();
            // a worker killed by the code under test (stack overflow, abort) is restarted
            // after the run that killed it
            loop {
                if start >= total {
                    break;
                }
                let left = max_s.saturating_sub(t_start.elapsed().as_secs());
                if left == 0 {
                    agg.sum.stopped_early = true;
                    break;
                }
                let mut child = Command::new(&exe)
                    .args([
                        "worker",
                        &id,
                        &vd,
                        &seed.to_string(),
                        if thorough { "thorough" } else { "quick" },
                        &start.to_string(),
                        &workers.to_string(),
                        &total.to_string(),
                        &left.to_string(),
                    ])
                    .stdin(Stdio::null())
                    .stdout(Stdio::piped())
                    .stderr(Stdio::inherit())
                    .spawn()
                    .expect("spawn worker");
                let rd = BufReader::new(child.stdout.take().unwrap());
                // a run that exceeds the per-run wall-clock limit (a compile that does not
                // terminate in reasonable time is C10's business, not ours) gets its worker
                // killed; the run is tallied as aborted and the sweep continues after it
                let beat = std::sync::Arc::new(std::sync::Mutex::new((Instant::now(), false)));
                let beat2 = beat.clone();
                let pid = child.id() as i32;
                let limit = Duration::from_secs(if thorough { 240 } else { 30 });
                let started = std::sync::Arc::new(std::sync::atomic::AtomicBool::new(false));
                let started2 = started.clone();
                let watcher = std::thread::spawn(move || loop {
                    std::thread::sleep(Duration::from_millis(500));
                    let (t, done) = *beat2.lock().unwrap();
                    if done {
                        break;
                    }
                    // process start-up (warm-up compiles, corpus scan) is not a run: it gets
                    // a generous limit of its own, so a loaded machine cannot turn it into
                    // a harness error
                    let lim = if started2.load(std::sync::atomic::Ordering::SeqCst) {
                        limit
                    } else {
                        Duration::from_secs(900)
                    };
                    if t.elapsed() > lim {
                        unsafe { libc::kill(pid, libc::SIGKILL) };
                        break;
                    }
                });
                let mut last_begin: Option<u64> = None;
                let mut got_summary = false;
                let mut candidate: Option<ReplayFile> = None;
                for line in rd.lines() {
                    let line = match line {
                        Ok(l) => l,
                        Err(_) => break,
                    };
                    match serde_json::from_str::<WorkerMsg>(&line) {
                        Ok(WorkerMsg::Begin(i)) => {
                            last_begin = Some(i);
                            beat.lock().unwrap().0 = Instant::now();
                            started.store(true, std::sync::atomic::Ordering::SeqCst);
                        }
                        Ok(WorkerMsg::Candidate(c)) => {
                            candidate = Some(*c);
                            // minimising is not a run: it has its own time budget
                            beat.lock().unwrap().0 = Instant::now()
                                + Duration::from_secs(if thorough { 180 } else { 60 })
                                + limit;
                        }
                        Ok(WorkerMsg::Violation(a, b)) => {
                            candidate = None;
                            agg.violations.push((*a, *b, start))
                        }
                        Ok(WorkerMsg::Harness(e)) => agg.harness.push(e),
                        Ok(WorkerMsg::Done) => got_summary = true,
                        Ok(WorkerMsg::Summary(s)) => {
                            let s = *s;
                            agg.sum.runs += s.runs;
                            agg.sum.steps += s.steps;
                            agg.sum.sim_ns += s.sim_ns;
                            agg.sum.nontrivial += s.nontrivial;
                            agg.sum.truncated += s.truncated;
                            agg.sum.panics += s.panics;
                            agg.sum.stopped_early |= s.stopped_early;
                            agg.sum.probes.merge(&s.probes);
                            for p in s.panic_samples {
                                if agg.sum.panic_samples.len() < 3 {
                                    agg.sum.panic_samples.push(p);
                                }
                            }
                            for smp in s.samples {
                                if agg.sum.samples.len() < 2 {
                                    agg.sum.samples.push(smp);
                                }
                            }
                            for (k, v) in s.known {
                                let e = agg.sum.known.entry(k).or_insert((0, v.1.clone()));
                                e.0 += v.0;
                            }
                            agg.keys.extend(s.keys);
                            agg.keys2.extend(s.keys2);
                        }
                        Err(_) => {}
                    }
                }
                let st = child.wait().ok();
                beat.lock().unwrap().1 = true;
                let _ = watcher.join();
                sandbox_reap(pid as u32);
                if let Some(c) = candidate.take() {
                    // the worker did not survive minimising: the run as found stands
                    agg.violations.push((c.clone(), c, start));
                    break;
                }
                if got_summary {
                    break;
                }
                // died without a summary
                let why = format!("{:?}", st);
                match last_begin {
                    Some(i) => {
                        agg.aborted.push((i, why));
                        start = i + workers;
                    }
                    None => {
                        // start-up failed (killed from outside, resource shortage): try again a
                        // couple of times before calling it a harness error
                        startup_failures += 1;
                        if startup_failures > 3 {
                            agg.harness.push(format!(
                                "worker {} died before its first run, {} times: {}",
                                k, startup_failures, why
                            ));
                            break;
                        }
                    }
                }
            }
            agg
        }));
    }
    let mut all = Agg {
        sum: WorkerSummary::default(),
        keys: HashSet::new(),
        keys2: HashSet::new(),
        aborted: vec![],
        violations: vec![],
        harness: vec![],
    };
    for h in handles {
        let a = h.join().expect("driver thread");
        all.sum.runs += a.sum.runs;
        all.sum.steps += a.sum.steps;
        all.sum.sim_ns += a.sum.sim_ns;
        all.sum.nontrivial += a.sum.nontrivial;
        all.sum.truncated += a.sum.truncated;
        all.sum.panics += a.sum.panics;
        all.sum.stopped_early |= a.sum.stopped_early;
        all.sum.probes.merge(&a.sum.probes);
        for p in a.sum.panic_samples {
            if all.sum.panic_samples.len() < 3 {
                all.sum.panic_samples.push(p);
            }
        }
        for s in a.sum.samples {
            if all.sum.samples.len() < 3 {
                all.sum.samples.push(s);
            }
        }
        for (k, v) in a.sum.known {
            let e = all.sum.known.entry(k).or_insert((0, v.1.clone()));
            e.0 += v.0;
        }
        all.keys.extend(a.keys);
        all.keys2.extend(a.keys2);
        all.aborted.extend(a.aborted);
        all.violations.extend(a.violations);
        all.harness.extend(a.harness);
    }

    // confirm every candidate in a fresh process from its recorded tape
    let rdir = format!("{}/replays", o.verif_dir);
    let _ = std::fs::create_dir_all(&rdir);
    let mut confirmed: Vec<(String, ReplayFile)> = Vec::new();
    let mut nonrepro: Vec<String> = Vec::new();
    all.violations.sort_by_key(|v| v.0.run_index);
    for (min, orig, seg_start) in all.violations.iter().take(8) {
        let base = format!("{}/{}-{}-{}", rdir, P::id(), o.seed, min.run_index);
        let fmin = format!("{}.json", base);
        let forig = format!("{}.orig.json", base);
        std::fs::write(&fmin, serde_json::to_string_pretty(min).unwrap()).ok();
        std::fs::write(&forig, serde_json::to_string_pretty(orig).unwrap()).ok();
        let run = |f: &str| -> Option<i32> {
            Command::new(&exe)
                .args(["replay", P::id(), &o.verif_dir, f, "--expect"])
                .stdout(Stdio::null())
                .stderr(Stdio::null())
                .status()
                .ok()
                .and_then(|s| s.code())
        };
        if run(&fmin) == Some(1) {
            let _ = std::fs::remove_file(&forig);
            confirmed.push((fmin, min.clone()));
        } else if run(&forig) == Some(1) {
            let _ = std::fs::remove_file(&fmin);
            let _ = std::fs::rename(&forig, &fmin);
            confirmed.push((fmin, orig.clone()));
        } else {
            // not reproducible from the run alone: the violation may need state left behind
            // by earlier runs of the same worker process (itself a history dependence).
            // Replay the worker's history: shortest power-of-two suffix that reproduces.
            let hist: Vec<u64> = (*seg_start..orig.run_index)
                .step_by(workers as usize)
                .collect();
            let mut found = false;
            let mut k = 1usize;
            while !hist.is_empty() {
                let k2 = k.min(hist.len());
                let mut cand = orig.clone();
                cand.history = hist[hist.len() - k2..].to_vec();
                std::fs::write(&fmin, serde_json::to_string_pretty(&cand).unwrap()).ok();
                if run(&fmin) == Some(1) {
                    let _ = std::fs::remove_file(&forig);
                    confirmed.push((fmin.clone(), cand));
                    found = true;
                    break;
                }
                if k2 == hist.len() {
                    break;
                }
                k *= 2;
            }
            if !found {
                nonrepro.push(format!(
                    "run {} ({}: {}) did not reproduce in a fresh process, with or without the worker's history",
                    min.run_index, orig.invariant, orig.message
                ));
            }
        }
    }

    let wall = t0.elapsed().as_secs_f64();
    for (k, (n, sample)) in all.sum.known.iter() {
        println!(
            "KNOWN-FINDING: property={} {} ({} runs; e.g. {})",
            P::id(),
            k,
            n,
            sample
        );
    }
    for (f, rf) in confirmed.iter() {
        println!(
            "violation: {} — {} (run {}, {} events, {} tape entries{}{})",
            rf.invariant,
            rf.message,
            rf.run_index,
            rf.events.len(),
            rf.tape.iter().filter(|e| e.2 != 0).count(),
            if rf.minimised { ", minimised" } else { "" },
            if rf.history.is_empty() {
                String::new()
            } else {
                format!(
                    "; shows only after {} earlier run(s) in the same process: state leaks between runs",
                    rf.history.len()
                )
            }
        );
        println!("VIOLATION property={} replay={}", P::id(), f);
    }
    for e in all.harness.iter() {
        println!("harness error: {}", e);
    }
    for e in nonrepro.iter() {
        println!("harness error: {}", e);
    }
    let runs_per_hour = if wall > 0.0 {
        all.sum.runs as f64 * 3600.0 / wall
    } else {
        0.0
    };
    println!(
        "{}: {} runs, {} scheduling steps, {} non-trivial, {} distinct non-trivial, {} aborted, {} truncated, {:.1}s wall, {:.0} runs/hour, simulated {:.1}s",
        P::id(),
        all.sum.runs,
        all.sum.steps,
        all.sum.nontrivial,
        all.keys.len(),
        all.aborted.len(),
        all.sum.truncated,
        wall,
        runs_per_hour,
        all.sum.sim_ns as f64 / 1e9
    );

    // thorough tier: determinism proof on a sample of run indices (three process layouts)
    let mut det: Option<(i32, u64, u64, u64)> = None;
    if o.thorough && confirmed.is_empty() && o.runs.is_none() {
        let n = P::determinism_runs();
        let (code, bad, ab) = determinism_detail::<P>(o.seed, o.thorough, n);
        det = Some((code, bad, ab, n));
    }
    if o.write_evidence {
        let mut samples = all.sum.samples.clone();
        if samples.is_empty() {
            samples.push(json!({"note": "no non-trivial run in this batch"}));
        }
        let ev = json!({
            "property_id": P::id(),
            "tier": if o.thorough { "thorough" } else { "quick" },
            "seed": o.seed,
            "level": "exploration",
            "wall_s": wall,
            "violations": confirmed.len(),
            "coverage": {
                "evaluations": all.sum.runs,
                "distinct_nontrivial": all.keys.len(),
                "rule": P::rule(),
                "samples": samples,
                "distinct_secondary_keys": all.keys2.len(),
                "scheduling_steps": all.sum.steps,
                "nontrivial_runs": all.sum.nontrivial,
                "runs_per_hour": runs_per_hour,
                "seeds_per_hour": runs_per_hour,
                "simulated_seconds": all.sum.sim_ns as f64 / 1e9,
                "faults_fired": all.sum.probes.faults,
                "reach_probes": all.sum.probes.reach,
                "aborted_runs": all.aborted.iter().take(20).map(|(i, w)| json!({"run_index": i, "why": w})).collect::<Vec<_>>(),
                "aborted_run_count": all.aborted.len(),
                "truncated_runs": all.sum.truncated,
                "panics_in_code_under_test": all.sum.panics,
                "panic_samples": all.sum.panic_samples,
                "known_findings_hit": all.sum.known.iter().map(|(k, v)| json!({"id": k, "runs": v.0, "example": v.1})).collect::<Vec<_>>(),
                "stopped_early": all.sum.stopped_early,
                "determinism_proof": det.map(|(c, bad, ab, n)| json!({"runs": n, "process_layouts": [16, 1, 5], "mismatches": bad, "runs_aborted_in_some_layout": ab, "ok": c == 0})),
                "harness_errors": all.harness.len() + nonrepro.len(),
                "workers": workers,
                "bounds": P::bounds(o.thorough),
                "real_vs_stub": P::real_vs_stub(),
                "replay_files": confirmed.iter().map(|(f, _)| f.clone()).collect::<Vec<_>>(),
            },
            "assumptions": P::assumptions(),
        });
        let edir = format!("{}/evidence", o.verif_dir);
        let _ = std::fs::create_dir_all(&edir);
        let path = format!("{}/{}.json", edir, P::id());
        if let Err(e) = std::fs::write(&path, serde_json::to_string_pretty(&ev).unwrap()) {
            println!("harness error: cannot write {}: {}", path, e);
            return 2;
        }
    }
    if !confirmed.is_empty() {
        return 1;
    }
    if !all.harness.is_empty() || !nonrepro.is_empty() {
        return 2;
    }
    if let Some((c, bad, _, _)) = det {
        if c != 0 {
            println!("harness error: determinism proof failed ({} mismatches)", bad);
            return 2;
        }
    }
    if all.sum.runs == 0 {
        println!("harness error: no run completed");
        return 2;
    }
    0
}

/// Determinism proof: every run index in 0..n executed in two separate processes (and at
/// two different stridings); the per-run identities must agree.
pub fn determinism_worker<P: Prop>(verif_seed: u64, thorough: bool, from: u64, to: u64) -> i32 {
    pin_to_cpu(from);
    let root = sandbox_init();
    P::init_process();
    for idx in from..to {
        let (_wl, _ent, r) = exec_one::<P>(verif_seed, idx, thorough);
        match r {
            Ok(rep) => {
                if std::env::var("DSIM_DUMP").is_ok() {
                    for e in rep.events.iter() {
                        println!("  {:?}", e);
                    }
                }
                println!(
                    "{} {:016x} {:016x} {} {}",
                    idx,
                    rep.log_hash,
                    rep.distinct_key,
                    rep.steps,
                    rep.violation
                        .map(|v| v.invariant)
                        .unwrap_or_else(|| "-".to_string())
                );
            }
            Err(e) => {
                println!("{} harness-error {}", idx, e);
                sandbox_done(&root);
                return 2;
            }
        }
    }
    sandbox_done(&root);
    0
}

pub fn determinism<P: Prop>(verif_seed: u64, thorough: bool, n: u64) -> i32 {
    determinism_detail::<P>(verif_seed, thorough, n).0
}

/// (exit code, mismatches, runs aborted in some layout)
pub fn determinism_detail<P: Prop>(verif_seed: u64, thorough: bool, n: u64) -> (i32, u64, u64) {
    let exe = std::env::current_exe().unwrap();
    let run_cfg = |chunks: u64| -> Option<BTreeMap<u64, String>> {
        let per = (n + chunks - 1) / chunks;
        let mut threads = Vec::new();
        for c in 0..chunks {
            let from = c * per;
            let to = ((c + 1) * per).min(n);
            if from >= to {
                continue;
            }
            let exe = exe.clone();
            let id = P::id().to_string();
            threads.push(std::thread::spawn(move || {
                let mut m: BTreeMap<u64, String> = BTreeMap::new();
                let mut cur = from;
                // a run that kills its process (stack overflow in the code under test) or
                // exceeds the time limit is recorded as "aborted" and the chunk resumes after it
                while cur < to {
                    let mut child = match Command::new(&exe)
                        .args([
                            "determinism-worker",
                            &id,
                            &verif_seed.to_string(),
                            if thorough { "thorough" } else { "quick" },
                            &cur.to_string(),
                            &to.to_string(),
                        ])
                        .stdout(Stdio::piped())
                        .stderr(Stdio::null())
                        .spawn()
                    {
                        Ok(c) => c,
                        Err(_) => break,
                    };
                    let beat = std::sync::Arc::new(std::sync::Mutex::new((Instant::now(), false)));
                    let beat2 = beat.clone();
                    let pid = child.id() as i32;
                    let limit = Duration::from_secs(if thorough { 240 } else { 60 });
                    let watcher = std::thread::spawn(move || loop {
                        std::thread::sleep(Duration::from_millis(500));
                        let (t, done) = *beat2.lock().unwrap();
                        if done {
                            break;
                        }
                        if t.elapsed() > limit {
                            unsafe { libc::kill(pid, libc::SIGKILL) };
                            break;
                        }
                    });
                    let rd = BufReader::new(child.stdout.take().unwrap());
                    for l in rd.lines().map_while(|l| l.ok()) {
                        if let Some((i, rest)) = l.split_once(' ') {
                            if let Ok(i) = i.parse::<u64>() {
                                m.insert(i, rest.to_string());
                                cur = i + 1;
                                beat.lock().unwrap().0 = Instant::now();
                            }
                        }
                    }
                    let _ = child.wait();
                    beat.lock().unwrap().1 = true;
                    let _ = watcher.join();
                    sandbox_reap(pid as u32);
                    if cur < to {
                        m.insert(cur, "aborted".to_string());
                        cur += 1;
                    }
                }
                m
            }));
        }
        let mut m = BTreeMap::new();
        for t in threads {
            m.extend(t.join().ok()?);
        }
        Some(m)
    };
    let a = run_cfg(16);
    let b = run_cfg(1);
    let c = run_cfg(5);
    match (a, b, c) {
        (Some(a), Some(b), Some(c)) => {
            let mut bad = 0;
            let mut aborted = 0;
            for i in 0..n {
                // a run killed by the wall-clock limit or by the code under test says
                // nothing about determinism; compare the layouts that completed it
                let vals: Vec<&String> = [a.get(&i), b.get(&i), c.get(&i)]
                    .into_iter()
                    .flatten()
                    .filter(|v| v.as_str() != "aborted")
                    .collect();
                if vals.len() < 3 {
                    aborted += 1;
                }
                let x = a.get(&i);
                if vals.is_empty() && x.is_some() {
                    continue;
                }
                if x.is_none() || vals.windows(2).any(|w| w[0] != w[1]) {
                    bad += 1;
                    if bad <= 10 {
                        println!(
                            "NONDETERMINISM run {}: {:?} vs {:?} vs {:?}",
                            i,
                            x,
                            b.get(&i),
                            c.get(&i)
                        );
                    }
                }
            }
            println!(
                "determinism {}: {} runs x 3 process layouts (16, 1, 5 processes), {} mismatches, {} runs aborted in some layout",
                P::id(),
                n,
                bad,
                aborted
            );
            if bad == 0 {
                (0, 0, aborted)
            } else {
                (2, bad, aborted)
            }
        }
        _ => {
            println!("determinism: could not run workers");
            (2, 0, 0)
        }
    }
}
