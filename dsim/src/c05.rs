//! C05 — compilation is a pure function of source, include files and options.
//!
//! One run = one process history.  A reference actor (fresh thread, canonical state: name
//! counter 0, default ambient integer mode, constant hash entropy) compiles each program of
//! the run; then up to eight perturbed actor threads, each with its own hash entropy, run
//! tape-ordered operations (compile, failing compile, counter jump, ambient integer mode,
//! re-entrant compile, reused allocator) interleaved by the controller at operation
//! boundaries and at allocation-count preemption points.  Every perturbed compile must give
//! the same Ok/Err class, the same bytes and the same symbol entries (generated-name digits
//! erased) as the reference.

use crate::common::{KnownFinding, Probes, Prop, RunReport};
use crate::gen_prog;
use crate::prng::{fnv1a, mix, Rng, FNV_INIT};
use crate::sched::{self, ActorSpec, Event, Policy, StepCtx, Violation};
use crate::seam::{self, Action, Actor, Decision, Op, OpKind, World};
use crate::tape::Tape;
use chialisp::classic::clvm_tools::clvmc;
use chialisp::compiler::clvm::NewStyleIntConversion;
use chialisp::compiler::compiler::DefaultCompilerOpts;
use chialisp::compiler::comptypes::{CompileErr, CompilerOpts, HasCompilerOptsDelegation};
use chialisp::compiler::gensym::ARGNAME_CTR;
use clvmr::allocator::Allocator;
use clvmr::serde::node_to_bytes;
use serde::{Deserialize, Serialize};
use sha2::{Digest, Sha256};
use std::cell::RefCell;
use std::collections::{BTreeMap, HashMap};
use std::panic::AssertUnwindSafe;
use std::rc::Rc;
use std::sync::atomic::Ordering;
use std::sync::{Arc, Mutex};
use std::time::Duration;

#[derive(Serialize, Deserialize, Clone, Debug)]
pub struct Prog {
    pub name: String,
    pub text: String,
    pub search: Vec<String>,
    /// classic_with_opts argument of compile_clvm_text (true = Python / JS entry point)
    pub with_opts: bool,
    pub corpus: bool,
    /// include files (name relative to the program's own include directory, contents)
    #[serde(default)]
    pub files: Vec<(String, String)>,
    /// compile through the command line front end (`run -i ... <file>`, cmds::launch_tool:
    /// RunAndCompileInputData option derivation + compile_file) and compare what it prints
    #[serde(default)]
    pub cli: bool,
    /// operator-set option (`--operators-version N` / set_disassembly_ver); None = default
    #[serde(default)]
    pub ops_version: Option<u8>,
    /// Some(flags): compile through `compiler::compile_file` directly with caller-built
    /// options (modern programs only): bit 0 optimize, bit 1 frontend_opt, bit 2
    /// frontend_check_live off, bit 3 final classic optimizer pass
    #[serde(default)]
    pub direct: Option<u8>,
    /// compile through the Python binding (`chialisp.compile(source, search_paths,
    /// export_symbols=True)` in an embedded interpreter); builds without the binding use
    /// compile_clvm_text with classic_with_opts = true instead, which is what the binding calls
    #[serde(default)]
    pub py: bool,
}

#[derive(Serialize, Deserialize, Clone, Debug, PartialEq)]
pub enum Re {
    Prog(usize),
    Fail(usize),
}

#[derive(Serialize, Deserialize, Clone, Debug, PartialEq)]
pub enum OpK {
    Compile(usize),
    Fail(usize),
    SetCounter(u64),
    /// a long history: compile program `.0` `.1` times in a row on this thread (fresh
    /// allocator and symbol map each time); only the last compile is compared
    Repeat(usize, u32),
}

#[derive(Serialize, Deserialize, Clone, Debug)]
pub struct OpSpec {
    pub kind: OpK,
    /// hold NewStyleIntConversion::new(b) around the operation
    pub ambient: Option<bool>,
    /// run a complete other compilation from inside read_new_file (n-th call)
    pub reenter: Option<(Re, u8)>,
}

#[derive(Serialize, Deserialize, Clone, Debug)]
pub struct ThreadSpec {
    pub ops: Vec<OpSpec>,
    pub reuse_allocator: bool,
}

#[derive(Serialize, Deserialize, Clone, Debug)]
pub struct Workload {
    pub progs: Vec<Prog>,
    pub threads: Vec<ThreadSpec>,
    /// allocation-count preemption points per thread (0..3)
    pub preempt_points: u8,
    pub stay_weight: u8,
    /// skip the perturbed phase when the work it would take (sum of the reference
    /// allocation counts of all compiles it contains) exceeds this; 0 = no limit
    #[serde(default)]
    pub work_limit: u64,
    /// per-mille chance, at every scheduling decision inside a compile, that the machine
    /// stalls: the simulated clock (CLOCK_MONOTONIC and CLOCK_REALTIME alike) jumps ahead by
    /// seconds to hours while the compile is parked.  0 = time stands still, as in the
    /// reference compile
    #[serde(default)]
    pub stall_pm: u16,
    /// fresh-process pair (DESIGN §16): two newly exec'ed processes with no warm-up compile
    /// `target`; the first does nothing else, the second first goes through `history` on the
    /// same thread.  Everything the pair depends on is in the workload, so it replays.
    #[serde(default)]
    pub fresh: Option<FreshSpec>,
}

#[derive(Serialize, Deserialize, Clone, Debug)]
pub struct FreshSpec {
    pub history: Vec<Re>,
    pub target: usize,
}

pub const FAILERS: [&str; 11] = [
    "(mod (X) (+ X 1",
    "(mod (X) (include *standard-cl-23*) (include no-such-file-anywhere.clib) X)",
    "(mod (X) (include *standard-cl-21*) (defun f) X)",
    "(mod (X) (include *standard-cl-23*) (+ X unbound_name_q))",
    "(mod (X) (include *standard-cl-21*) (defmacro boom () (x \"boom\")) (boom))",
    "(mod (X) (defun f (A) (g A)) (f X))",
    "(mod (X) (include *standard-cl-23*) (defconst C (x 1)) (+ X C))",
    "(mod (X) (include *standard-cl-23.1*) (defun f (A) (let ((q 0x0000)) (+ A q unbound_zz))) (f X))",
    "(mod (X) (include *standard-cl-21*) (defun f (A) (let ((q 0)) (+ A q))) (f X) extra-form)",
    // an include file that is empty: the preprocessor indexes into an empty parse (a panic,
    // which a host catches with catch_unwind) - "an earlier compilation failed" by unwinding
    "(mod (X) (include *standard-cl-23*) (include empty.clib) (+ X 1))",
    "(mod (X) (include *standard-cl-21*) (defun f (A) (+ A 1)) (include empty.clib) (f X))",
];

/// Hand-written programs that are known to be sensitive detectors: their bytes or symbols
/// move when generated-name numbering, hash order, the integer mode or the macro set changes
/// (shapes learnt from the defects of §12 and the seeded changes of §13 in DESIGN.md).
pub const CANARIES: [&str; 21] = [
    // several CSE candidates with the same insertion root (numbering / hash order)
    "(mod (X Y) (include *standard-cl-23*) (defun F (A B) (list (sha256 (* A 17 A 19 A) B) (sha256 (* A 17 A 19 A) A) (concat (+ B 1000000 B 2000000 B) A) (concat (+ B 1000000 B 2000000 B) B) (* A 17 A 19 A) (+ B 1000000 B 2000000 B))) (F X Y))",
    "(mod (X Y Z) (include *standard-cl-24*) (defun G (A B C) (if (> A B) (list (* (+ A B) (+ A B)) (- (* B C) (* B C)) (+ (- C A) (- C A))) (list (+ (* B C) (* B C)) (* (- C A) (- C A)) (- (+ A B) (+ A B))))) (G X Y Z))",
    "(mod (X Y) (include *standard-cl-23.1*) (defun F (A B) (c (logxor (* A 3 B 5 A) 0) (c (logxor (* A 3 B 5 A) 1) (c (concat (+ B 7 A 9 B) 0x00) (c (concat (+ B 7 A 9 B) A) ()))))) (F X Y))",
    // cl22: a let-bound name used inside `if` (generated names reach the output)
    "(mod (X Y) (include *standard-cl-22*) (defun f (A B) (let ((v (+ A B)) (w (* A B))) (if A (c v w) (c w v)))) (f X Y))",
    // integer zero in every spelling, under both integer-fix settings
    "(mod (X) (include *standard-cl-21*) (defconstant Z 0) (defun f (A) (c 0 (c 0x00 (c 0x0000 (c Z (c (- A A) ())))))) (f X))",
    "(mod (X) (include *standard-cl-23*) (defconstant Z 0x00) (defun f (A) (c 0 (c 0x00 (c 0x0000 (c Z (c 128 (c -129 ()))))))) (f X))",
    "(mod (X) (include *standard-cl-24*) (defconstant Z 0x0000) (defun f (A) (c 0 (c 0x00 (c 0x0000 (c Z (c 0x0080 (c 255 ()))))))) (f X))",
    // macro sets differ by strictness: if / list under non-strict and strict dialects
    "(mod (X Y) (include *standard-cl-21*) (defun f (A B) (if A (list A B (if B 1 2)) (list B A))) (f X Y))",
    "(mod (X Y) (include *standard-cl-23*) (defun f (A B) (if A (list A B (if B 1 2)) (list B A))) (f X Y))",
    // interacting synthetic let-binding helpers (inline decisions) and a lambda
    "(mod (X Y) (include *standard-cl-23*) (defun f (A B) (let ((p (* A B A)) (q (+ A B A))) (let* ((r (concat p q p)) (s (sha256 r q))) (c r (c s (c p (c q (c r (c s ()))))))))) (f X Y))",
    "(mod (X Y) (include *standard-cl-23*) (defun f (A B) (a (lambda ((& A B) Z) (+ A B Z)) (list A))) (f X Y))",
    // a helper that is only called with constants (folded away during code generation)
    // next to several surviving non-inline functions: env layout follows helper order
    "(mod (X Y) (include *standard-cl-23*) (defun scale (N) (* N 7)) (defun left (A B) (+ A (* 2 B))) (defun right (A B) (- A B)) (defun both (A B) (* (left A B) (right A B))) (+ (scale 3) (both X Y)))",
    "(mod (X Y) (include *standard-cl-24*) (defun k1 (N) (sha256 N 1)) (defun p (A B) (c A (c B ()))) (defun q (A B) (c B (c A ()))) (defun r (A B) (c (p A B) (q A B))) (c (k1 5) (r X Y)))",
    // two helpers that compile to identical code share one function hash in the symbol table
    "(mod (X) (include *standard-cl-21*) (defun dbl (X) (* X 2)) (defun twice (AMOUNT) (* AMOUNT 2)) (+ (dbl X) (twice X)))",
    "(mod (X) (include *standard-cl-23*) (defun dbl (X) (* X 2)) (defun twice (AMOUNT) (* AMOUNT 2)) (defun thrice (Q) (* Q 3)) (+ (dbl X) (twice X) (thrice X)))",
    // constant folding / compile-time constants with operators that only newer operator
    // sets have (sensitive to operator-set state)
    "(mod (X) (include *standard-cl-23*) (defun f (A) (+ A (% 1000 7))) (f X))",
    "(mod (X) (include *standard-cl-23*) (defconst K (modpow 2 10 1000)) (+ X K))",
    // many `(mod ...)` expressions (no helpers: cl23 rejects helpers next to an inner mod),
    // and a program with `if (not (= ..))` and a helper called with a constant: what
    // per-thread counters in the cl23 expression optimiser act on and show up in
    "(mod (X) (include *standard-cl-23*) (c (a (mod (Z) (+ Z 1)) (list X)) (c (a (mod (Z) (+ Z 2)) (list X)) (c (a (mod (Z) (+ Z 3)) (list X)) (c (a (mod (Z) (+ Z 4)) (list X)) (c (a (mod (Z) (+ Z 5)) (list X)) (c (a (mod (Z) (+ Z 6)) (list X)) (c (a (mod (Z) (+ Z 7)) (list X)) (c (a (mod (Z) (+ Z 8)) (list X)) (c (a (mod (Z) (+ Z 9)) (list X)) (c (a (mod (Z) (+ Z 10)) (list X)) (c (a (mod (Z) (+ Z 11)) (list X)) (c (a (mod (Z) (+ Z 12)) (list X)) ())))))))))))))",
    "(mod (PASSWORD_HASH PASSWORD) (include *standard-cl-23*) (defun sq (N) (* N N)) (if (not (= PASSWORD_HASH (sha256 PASSWORD))) (x \"wrong password\") (list (sq 7) PASSWORD)))",
    // the two programs on which the hash-order dependence of deinline_opt was first seen
    // (prelim/p103.clsp, prelim/p65.clsp): many interacting synthetic let-binding helpers
    "(mod (X Y) (include *standard-cl-23*) (defun f0 (a0_0 a0_1 a0_2) (c (assign v911 a0_0 v346 (c a0_0 (c a0_0 a0_2)) (logand 19 v911)) (c (assign v911 a0_0 v346 (c a0_0 (c a0_0 a0_2)) (logand 19 v911)) a0_2))) (defun f1 (a1_0) a1_0) (defun f2 (a2_0 a2_1 a2_2) (let* ((v907 (let ((v42 a2_0) (v493 (concat (let* ((v313 a2_0)) 19) (logand a2_2 a2_2)))) (let ((v268 a2_2) (v767 (c v493 (c v493 a2_1)))) v493))) (v822 a2_0) (v916 (logior a2_1 (let* ((v97 (- a2_2 a2_2)) (v466 (let ((v698 a2_2) (v498 a2_0) (v353 a2_1)) a2_1)) (v316 (assign v611 a2_1 v741 a2_2 v741))) (let* ((v144 v316) (v139 v316)) 19))))) a2_0)) (defun f3 (a3_0) (let* ((v881 (if (let ((v115 17) (v629 a3_0) (v53 a3_0)) v629) (assign v775 a3_0 v389 a3_0 a3_0) (- a3_0 a3_0))) (v120 (let* ((v675 (* a3_0 a3_0))) (let ((v202 v675) (v127 v675)) v202)))) (let* ((v100 (- v120 v120)) (v574 (logand v120 v120))) v100))) (assign v940 (c Y (c Y (if (let* ((v557 Y) (v197 Y)) v557) (logand X Y) (let* ((v751 X) (v605 Y) (v830 Y)) v605)))) v986 (let* ((v317 (let ((v174 (if Y Y X)) (v728 (logior X X)) (v284 (let ((v459 Y) (v11 X) (v135 Y)) v11))) (if 2 19 v728))) (v617 (f3 (assign v241 X v746 X 10))) (v809 (c (concat 19 X) (c (concat 19 X) (f3 Y))))) v809) v654 (concat (f1 Y) (logand Y (c X (c X Y)))) (assign v413 (concat (if v986 8 v654) (if v654 6 X)) v697 (assign v66 (assign v100 17 v385 Y v165 6 v654) v899 (f3 X) 20) v839 (+ X (if v940 12 v654)) (logior (if v413 v940 Y) (if v839 v413 Y)))))",
    "(mod (X Y) (include *standard-cl-23*) (defun-inline f0 (a0_0 a0_1) (logand (if (if (logior a0_0 a0_0) (sha256 4 a0_1) (assign v236 a0_1 v944 a0_0 v892 a0_1 v236)) (* (logior a0_0 a0_1) (if a0_1 a0_1 a0_0)) (if (let* ((v684 a0_0) (v66 5)) v684) (if a0_1 3 19) (concat 16 a0_1))) (if (* (if a0_0 6 a0_1) (* a0_0 a0_1)) 5 (if (assign v286 18 v671 a0_1 v94 a0_0 v671) (* a0_0 a0_1) a0_0)))) (defun f1 (a1_0 a1_1) (c (assign v140 a1_1 v428 a1_0 v9 a1_0 v428) (c (assign v140 a1_1 v428 a1_0 v9 a1_0 v428) 16))) (defun f2 (a2_0 a2_1 a2_2) (assign v945 (+ (f1 (concat (f0 9 a2_2) a2_2) (concat a2_1 (let ((v719 a2_2)) a2_0))) (let ((v854 (c (f0 a2_2 a2_0) (c (f0 a2_2 a2_0) (c a2_2 (c a2_2 a2_0)))))) v854)) v724 (c a2_2 (c a2_2 (let* ((v118 (c a2_2 (c a2_2 (if a2_1 a2_0 a2_2)))) (v63 14) (v989 18)) 18))) (concat (c v724 (c v724 (let ((v215 (logior v724 v945))) (sha256 11 v945)))) (let* ((v94 (c (logior a2_0 a2_2) (c (logior a2_0 a2_2) a2_1)))) (c (if a2_0 v945 a2_2) (c (if a2_0 v945 a2_2) a2_2)))))) (defun f3 (a3_0 a3_1 a3_2) a3_2) (assign v364 (f3 (+ Y 7) (f0 X Y) (logand Y 20)) (let* ((v460 (f2 7 X Y)) (v72 (let* ((v405 Y)) v405)) (v316 (assign v516 5 v883 X v883))) (logior X v364))))",
];

const WARMUP: [&str; 9] = [
    "(mod (X) (defun f (A) (+ A 1)) (defmacro m (A) (qq (+ 1 (unquote A)))) (list (f X) (m X)))",
    "(mod (X) (include *standard-cl-21*) (defun f (A) (let ((q (* A 2))) (+ A q))) (f X))",
    "(mod (X) (include *standard-cl-21*) (defun f (A) (+ A 1)) (a (lambda ((& X) Z) (+ X Z)) (list (f X))))",
    "(mod (X) (include *strict-cl-21*) (defun f (A) (assign q (* A 2) (+ A q))) (f X))",
    "(mod (X) (include *standard-cl-22*) (defconstant K 0x0000) (defun f (A) (let* ((q (* A 2)) (z (+ q K))) (c z (c z ())))) (f X))",
    "(mod (X) (include *standard-cl-23*) (defconst K (+ 1 2)) (defmac m (A B) (qq (+ (unquote A) (unquote B)))) (defun-inline g (A) (* A A)) (defun f (A) (assign q (g A) (c (sha256 q K) (c (sha256 q K) ())))) (m (f X) 1))",
    "(mod (X) (include *standard-cl-23.1*) (defun f (A) (if A (c (+ A 0) (c (+ A 0) ())) ())) (f X))",
    "(mod (X) (include *standard-cl-24*) (defun f (A) (a (lambda ((& A) Z) (+ A Z)) (list 1))) (f X))",
    "(mod (X) (include *standard-cl-23*) (embed-file E bin no-such-embed.bin) X)",
];

// ---------------------------------------------------------------------------------------
// compiling and digesting
// ---------------------------------------------------------------------------------------

#[derive(Clone)]
struct ReOpts {
    opts: Rc<dyn CompilerOpts>,
    countdown: Rc<RefCell<i32>>,
    fire: Rc<RefCell<Option<Box<dyn FnOnce()>>>>,
}

impl HasCompilerOptsDelegation for ReOpts {
    fn compiler_opts(&self) -> Rc<dyn CompilerOpts> {
        self.opts.clone()
    }
    fn update_compiler_opts<F: FnOnce(Rc<dyn CompilerOpts>) -> Rc<dyn CompilerOpts>>(
        &self,
        f: F,
    ) -> Rc<dyn CompilerOpts> {
        Rc::new(ReOpts {
            opts: f(self.opts.clone()),
            countdown: self.countdown.clone(),
            fire: self.fire.clone(),
        })
    }
    fn override_read_new_file(
        &self,
        inc_from: String,
        filename: String,
    ) -> Result<(String, Vec<u8>), CompileErr> {
        let go = {
            let mut c = self.countdown.borrow_mut();
            *c -= 1;
            *c < 0
        };
        if go {
            let f = self.fire.borrow_mut().take();
            if let Some(f) = f {
                f();
            }
        }
        self.opts.read_new_file(inc_from, filename)
    }
}

pub struct Compiled {
    pub class: &'static str,
    pub bytes: Vec<u8>,
    pub syms: String,
}

fn erase_gensym_digits(s: &str) -> String {
    let b = s.as_bytes();
    let mut out = String::with_capacity(s.len());
    let mut i = 0;
    while i < b.len() {
        if b[i..].starts_with(b"_$_") {
            out.push_str("_$_");
            i += 3;
            while i < b.len() && b[i].is_ascii_digit() {
                i += 1;
            }
        } else {
            let ch = s[i..].chars().next().unwrap();
            out.push(ch);
            i += ch.len_utf8();
        }
    }
    out
}

pub fn norm_syms(m: &HashMap<String, String>) -> String {
    let mut v: Vec<String> = m
        .iter()
        .map(|(k, v)| format!("{}={}", erase_gensym_digits(k), erase_gensym_digits(v)))
        .collect();
    v.sort();
    v.join("\n")
}

#[allow(clippy::too_many_arguments)]
fn compile_text_v(
    text: &str,
    name: &str,
    search: &[String],
    with_opts: bool,
    ops_version: Option<u8>,
    allocator: &mut Allocator,
    syms: &mut HashMap<String, String>,
    reenter: Option<(i32, Box<dyn FnOnce()>)>,
) -> Compiled {
    let r = std::panic::catch_unwind(AssertUnwindSafe(|| {
        let base: Rc<dyn CompilerOpts> = Rc::new(DefaultCompilerOpts::new(name));
        let base = base.set_search_paths(search);
        let base = match ops_version {
            Some(v) => base.set_disassembly_ver(Some(v as usize)),
            None => base,
        };
        let opts: Rc<dyn CompilerOpts> = match reenter {
            Some((n, f)) => Rc::new(ReOpts {
                opts: base,
                countdown: Rc::new(RefCell::new(n)),
                fire: Rc::new(RefCell::new(Some(f))),
            }),
            None => base,
        };
        match clvmc::compile_clvm_text(allocator, opts, syms, text, name, with_opts) {
            Ok(node) => match node_to_bytes(allocator, node) {
                Ok(b) => Some(b),
                Err(_) => None,
            },
            Err(_) => None,
        }
    }));
    match r {
        Ok(Some(b)) => Compiled {
            class: "ok",
            bytes: b,
            syms: norm_syms(syms),
        },
        Ok(None) => Compiled {
            class: "err",
            bytes: vec![],
            syms: String::new(),
        },
        Err(_) => Compiled {
            class: "panic",
            bytes: vec![],
            syms: String::new(),
        },
    }
}

/// `compile_file` called the way an embedding host would: dialect detected from the source,
/// options built by the caller (optimisation switches varied), result converted like clvmc.
fn compile_direct(
    text: &str,
    name: &str,
    search: &[String],
    flags: u8,
    allocator: &mut Allocator,
    syms: &mut HashMap<String, String>,
) -> Compiled {
    use chialisp::classic::clvm_tools::binutils::assemble_from_ir;
    use chialisp::classic::clvm_tools::ir::reader::read_ir;
    use chialisp::classic::clvm_tools::stages::stage_0::DefaultProgramRunner;
    use chialisp::compiler::clvm::convert_to_clvm_rs;
    use chialisp::compiler::compiler::compile_file;
    use chialisp::compiler::dialect::detect_modern;
    use chialisp::compiler::optimize::maybe_finalize_program_via_classic_optimizer;
    let r = std::panic::catch_unwind(AssertUnwindSafe(|| {
        let ir = read_ir(text).ok()?;
        let assembled = assemble_from_ir(allocator, Rc::new(ir)).ok()?;
        let dialect = detect_modern(allocator, assembled);
        let stepping = dialect.stepping?;
        let runner = Rc::new(DefaultProgramRunner::new());
        let opts: Rc<dyn CompilerOpts> = Rc::new(DefaultCompilerOpts::new(name));
        let opts = opts
            .set_search_paths(search)
            .set_dialect(dialect)
            .set_optimize(flags & 1 != 0 || stepping > 22)
            .set_frontend_opt(flags & 2 != 0 && stepping == 22)
            .set_frontend_check_live(flags & 4 == 0);
        let unopt = compile_file(allocator, runner.clone(), opts.clone(), text, syms).ok()?;
        let _mode = NewStyleIntConversion::new(true);
        let res = maybe_finalize_program_via_classic_optimizer(
            allocator,
            runner,
            opts,
            flags & 8 != 0,
            &unopt,
        )
        .ok()?;
        let node = convert_to_clvm_rs(allocator, res).ok()?;
        node_to_bytes(allocator, node).ok()
    }));
    match r {
        Ok(Some(b)) => Compiled {
            class: "ok",
            bytes: b,
            syms: norm_syms(syms),
        },
        Ok(None) => Compiled {
            class: "err",
            bytes: vec![],
            syms: String::new(),
        },
        Err(_) => Compiled {
            class: "panic",
            bytes: vec![],
            syms: String::new(),
        },
    }
}

/// Write an include file the way timestamp-preserving tools do (cp -p, rsync -t, tar, a
/// checkout that restores mtimes): whatever the contents, the modification time is the same.
fn write_stamped(path: &str, content: &str) {
    let _ = std::fs::write(path, content);
    if let Ok(c) = std::ffi::CString::new(path) {
        let ts = [
            libc::timespec {
                tv_sec: 1_600_000_000,
                tv_nsec: 0,
            },
            libc::timespec {
                tv_sec: 1_600_000_000,
                tv_nsec: 0,
            },
        ];
        unsafe { libc::syscall(libc::SYS_utimensat, libc::AT_FDCWD, c.as_ptr(), ts.as_ptr(), 0) };
    }
}

/// The Python binding's `compile`; None when this build has no binding.
fn compile_py(text: &str, search: &[String]) -> Option<Compiled> {
    let r = crate::pybind::compile(text, search)?;
    let _g = seam::HarnessGuard::new();
    Some(match r {
        Ok((hex, syms)) => {
            let bytes: Option<Vec<u8>> = if hex.len() % 2 == 0 {
                (0..hex.len() / 2)
                    .map(|i| u8::from_str_radix(&hex[2 * i..2 * i + 2], 16).ok())
                    .collect()
            } else {
                None
            };
            match bytes {
                Some(b) => Compiled {
                    class: "ok",
                    bytes: b,
                    syms: norm_syms(&syms.into_iter().collect()),
                },
                None => Compiled {
                    class: "err",
                    bytes: vec![],
                    syms: String::new(),
                },
            }
        }
        Err(e) if e.starts_with("PanicException") => Compiled {
            class: "panic",
            bytes: vec![],
            syms: String::new(),
        },
        Err(_) => Compiled {
            class: "err",
            bytes: vec![],
            syms: String::new(),
        },
    })
}

/// The `run` tool, as the command line runs it; the program text is read from `path`.
fn compile_cli(path: &str, search: &[String], ops_version: Option<u8>) -> Compiled {
    use chialisp::classic::clvm::__type_compatibility__::Stream;
    let r = std::panic::catch_unwind(AssertUnwindSafe(|| {
        let mut args: Vec<String> = vec!["run".to_string()];
        if let Some(v) = ops_version {
            args.push("--operators-version".to_string());
            args.push(format!("{}", v));
        }
        for d in search {
            args.push("-i".to_string());
            args.push(d.clone());
        }
        args.push(path.to_string());
        let mut out = Stream::new(None);
        chialisp::classic::clvm_tools::cmds::launch_tool(&mut out, &args, "run", 2);
        out.get_value().data().to_vec()
    }));
    match r {
        Ok(b) if b.first() == Some(&b'(') || (b.len() < 40 && !b.contains(&b':')) => Compiled {
            class: "ok",
            bytes: b,
            syms: String::new(),
        },
        Ok(_) => Compiled {
            class: "err",
            bytes: vec![],
            syms: String::new(),
        },
        Err(_) => Compiled {
            class: "panic",
            bytes: vec![],
            syms: String::new(),
        },
    }
}

fn compile_text(
    text: &str,
    name: &str,
    search: &[String],
    with_opts: bool,
    allocator: &mut Allocator,
    syms: &mut HashMap<String, String>,
    reenter: Option<(i32, Box<dyn FnOnce()>)>,
) -> Compiled {
    compile_text_v(text, name, search, with_opts, None, allocator, syms, reenter)
}

fn digest(b: &[u8]) -> String {
    let mut h = Sha256::new();
    h.update(b);
    let d = h.finalize();
    d[..8].iter().map(|x| format!("{:02x}", x)).collect()
}

fn hexs(b: &[u8]) -> String {
    b.iter().map(|x| format!("{:02x}", x)).collect()
}

#[derive(Clone, Debug, Default)]
pub struct ResInfo {
    pub p: usize,
    pub class: String,
    pub bytes_digest: String,
    pub len: usize,
    pub syms_digest: String,
    pub dctr: u64,
    pub fresh_names: bool,
    pub allocs: u64,
    pub nested: bool,
    pub hex: String,
    pub syms: String,
}

fn res_info(p: usize, c: &Compiled, dctr: u64, allocs: u64, nested: bool, with_syms: bool, renames: bool) -> String {
    let syms_digest = if with_syms { digest(c.syms.as_bytes()) } else { "-".to_string() };
    format!(
        "p={};cls={};gs={};bytes={};len={};syms={};dctr={};allocs={};nested={};hex={};symtab={}",
        p,
        c.class,
        (dctr > 0 || c.syms.contains("_$_") || renames) as u8,
        digest(&c.bytes),
        c.bytes.len(),
        syms_digest,
        dctr,
        allocs,
        nested as u8,
        if c.bytes.len() <= 40_000 { hexs(&c.bytes) } else { String::new() },
        if with_syms && c.syms.len() <= 20_000 { c.syms.replace([';', '\n'], "|") } else { String::new() },
    )
}

fn parse_info(s: &str) -> ResInfo {
    let mut r = ResInfo::default();
    for kv in s.split(';') {
        if let Some((k, v)) = kv.split_once('=') {
            match k {
                "p" => r.p = v.parse().unwrap_or(0),
                "cls" => r.class = v.to_string(),
                "gs" => r.fresh_names = v == "1",
                "bytes" => r.bytes_digest = v.to_string(),
                "len" => r.len = v.parse().unwrap_or(0),
                "syms" => r.syms_digest = v.to_string(),
                "dctr" => r.dctr = v.parse().unwrap_or(0),
                "allocs" => r.allocs = v.parse().unwrap_or(0),
                "nested" => r.nested = v == "1",
                "hex" => r.hex = v.to_string(),
                "symtab" => r.syms = v.to_string(),
                _ => {}
            }
        }
    }
    r
}

fn run_compile_op(
    actor: &Actor,
    progs: &Arc<Vec<Prog>>,
    p: usize,
    reenter: &Option<(Re, u8)>,
    allocator: &mut Allocator,
    syms: &mut HashMap<String, String>,
    with_syms: bool,
    nested: bool,
) {
    let prog = &progs[p];
    let ctr0 = ARGNAME_CTR.load(Ordering::SeqCst);
    let a0 = actor.alloc_count();
    let re: Option<(i32, Box<dyn FnOnce()>)> = match reenter {
        None => None,
        Some((what, n)) => {
            let progs2 = progs.clone();
            let what = what.clone();
            let actor_ptr = actor as *const Actor as usize;
            Some((
                *n as i32,
                Box::new(move || {
                    // a complete other compilation on the same thread, in the middle of this one
                    let actor: &Actor = unsafe { &*(actor_ptr as *const Actor) };
                    let mut a2 = Allocator::new();
                    let mut s2 = HashMap::new();
                    match what {
                        Re::Prog(q) => {
                            run_compile_op(actor, &progs2, q, &None, &mut a2, &mut s2, true, true)
                        }
                        Re::Fail(f) => {
                            let _ = compile_text(
                                FAILERS[f % FAILERS.len()],
                                "failing.clsp",
                                &["r/fail".to_string()],
                                true,
                                &mut a2,
                                &mut s2,
                                None,
                            );
                        }
                    }
                }),
            ))
        }
    };
    // a program marked for the command line front end is always compiled through it (the
    // reference too), so the re-entry hook, which needs a CompilerOpts, does not apply to it
    let cli = prog.cli;
    // include files of a generated program are (re)written just before it is compiled, into
    // a directory that belongs to this thread: two programs that use the same include names
    // with different contents then change the contents found at one fixed path between
    // compilations (as an editor and a long-lived host would), without threads racing
    let search: Vec<String> = if prog.files.is_empty() {
        prog.search.clone()
    } else {
        let _g = seam::HarnessGuard::new();
        let dir = format!("r/inc/t{}{}", actor.id, if nested { "n" } else { "" });
        let _ = std::fs::create_dir_all(&dir);
        for (name, content) in prog.files.iter() {
            write_stamped(&format!("{}/{}", dir, name), content);
        }
        vec![dir]
    };
    let py = if prog.py && !cli {
        compile_py(&prog.text, &search)
    } else {
        None
    };
    let c = if let Some(c) = py {
        c
    } else if cli {
        let path = if prog.corpus {
            prog.name.clone()
        } else {
            format!("r/src/{}/{}", p, prog.name)
        };
        compile_cli(&path, &search, prog.ops_version)
    } else if let (Some(flags), true) = (prog.direct, prog.text.contains("(include *")) {
        compile_direct(&prog.text, &prog.name, &search, flags, allocator, syms)
    } else {
        compile_text_v(
            &prog.text,
            &prog.name,
            &search,
            prog.with_opts,
            prog.ops_version,
            allocator,
            syms,
            re,
        )
    };
    let with_syms = with_syms && !cli;
    let info = {
        let _g = seam::HarnessGuard::new();
        let dctr = ARGNAME_CTR.load(Ordering::SeqCst).wrapping_sub(ctr0) as u64;
        // the modern compiler renames every bound name (function arguments, let / assign
        // bindings, lambda arguments) with a generated one
        let renames = prog.text.contains("(include *standard-cl-")
            || prog.text.contains("(include *strict-cl-");
        let renames = renames
            && ["(defun", "(let", "(assign", "(lambda", "(defmac"]
                .iter()
                .any(|k| prog.text.contains(k));
        res_info(p, &c, dctr, actor.alloc_count() - a0, nested, with_syms, renames)
    };
    actor.boundary("res", &info);
}

fn thread_body(
    progs: Arc<Vec<Prog>>,
    t: ThreadSpec,
    clock_yields: bool,
) -> Box<dyn FnOnce(&Actor) + Send + 'static> {
    Box::new(move |actor: &Actor| {
        actor.clock_yields.set(clock_yields);
        let mut shared_alloc = Allocator::new();
        let mut shared_syms: HashMap<String, String> = HashMap::new();
        for (oi, op) in t.ops.iter().enumerate() {
            let label = {
                let _g = seam::HarnessGuard::new();
                format!("{}", oi)
            };
            actor.boundary("op", &label);
            let _amb = op.ambient.map(NewStyleIntConversion::new);
            match &op.kind {
                OpK::SetCounter(v) => {
                    ARGNAME_CTR.store(*v as usize, Ordering::SeqCst);
                }
                OpK::Fail(f) => {
                    let mut a = Allocator::new();
                    let mut s = HashMap::new();
                    let c = compile_text(
                        FAILERS[*f % FAILERS.len()],
                        "failing.clsp",
                        &["r/fail".to_string()],
                        true,
                        &mut a,
                        &mut s,
                        None,
                    );
                    actor.boundary("failed", c.class);
                }
                OpK::Repeat(p, n) => {
                    let prog = &progs[*p];
                    for _ in 1..*n {
                        let mut a = Allocator::new();
                        let mut s = HashMap::new();
                        let _ = compile_text_v(
                            &prog.text,
                            &prog.name,
                            &prog.search,
                            prog.with_opts,
                            prog.ops_version,
                            &mut a,
                            &mut s,
                            None,
                        );
                    }
                    let mut a = Allocator::new();
                    let mut s = HashMap::new();
                    run_compile_op(actor, &progs, *p, &None, &mut a, &mut s, true, false);
                }
                OpK::Compile(p) => {
                    if t.reuse_allocator {
                        run_compile_op(
                            actor,
                            &progs,
                            *p,
                            &op.reenter,
                            &mut shared_alloc,
                            &mut shared_syms,
                            false,
                            false,
                        );
                        // a reused allocator is history, an exhausted one is a capacity the
                        // caller chose: a compile that ran away (a constant function that
                        // recurses for ever fills all 62.5 million pairs before it fails) must
                        // not make the next compile fail for lack of room, which C05 does
                        // not forbid.  A host at a third of the capacity starts a new one.
                        if shared_alloc.pair_count() > 20_000_000
                            || shared_alloc.atom_count() > 20_000_000
                            || shared_alloc.heap_size() > (1 << 30)
                        {
                            shared_alloc = Allocator::new();
                        }
                    } else {
                        let mut a = Allocator::new();
                        let mut s = HashMap::new();
                        run_compile_op(actor, &progs, *p, &op.reenter, &mut a, &mut s, true, false);
                    }
                }
            }
        }
    })
}

fn ref_body(progs: Arc<Vec<Prog>>, p: usize) -> Box<dyn FnOnce(&Actor) + Send + 'static> {
    Box::new(move |actor: &Actor| {
        ARGNAME_CTR.store(0, Ordering::SeqCst);
        let mut a = Allocator::new();
        let mut s = HashMap::new();
        run_compile_op(actor, &progs, p, &None, &mut a, &mut s, true, false);
    })
}

// ---------------------------------------------------------------------------------------
// corpus and generation
// ---------------------------------------------------------------------------------------

lazy_static::lazy_static! {
    static ref CORPUS: Mutex<Option<Vec<(String, String, u64)>>> = Mutex::new(None);
}

const CORPUS_ROOT: &str = "/repo/resources/tests";

fn corpus() -> Vec<(String, String, u64)> {
    let mut g = CORPUS.lock().unwrap();
    if let Some(c) = g.as_ref() {
        return c.clone();
    }
    let mut out = Vec::new();
    let mut stack = vec![std::path::PathBuf::from(CORPUS_ROOT)];
    while let Some(d) = stack.pop() {
        let mut ents: Vec<_> = match std::fs::read_dir(&d) {
            Ok(r) => r.filter_map(|e| e.ok()).collect(),
            Err(_) => continue,
        };
        ents.sort_by_key(|e| e.path());
        for e in ents {
            let p = e.path();
            if p.is_dir() {
                stack.push(p);
            } else if let Some(ext) = p.extension().and_then(|x| x.to_str()) {
                if matches!(ext, "clsp" | "clvm" | "cl") {
                    if let Ok(t) = std::fs::read_to_string(&p) {
                        let len = t.len() as u64;
                        out.push((p.to_string_lossy().into_owned(), t, len));
                    }
                }
            }
        }
    }
    out.sort();
    *g = Some(out.clone());
    out
}

fn biased_counter(rng: &mut Rng) -> u64 {
    match rng.below(6) {
        0 => *rng.pick(&[9u64, 99, 999, 9999, 99999, 999_999]),
        1 => {
            let k = rng.range(1, 9);
            let base = 10u64.pow(k as u32);
            base.saturating_sub(rng.below(8))
        }
        2 => rng.below(64),
        3 => rng.below(1 << 32),
        4 => 0,
        _ => rng.below(5000),
    }
}

pub fn generate(rng: &mut Rng, thorough: bool) -> Workload {
    let k = rng.range(1, 4) as usize;
    let mut progs = Vec::new();
    let corp = corpus();
    // one run in eight is built around a classic program and its near twin
    let classic_twin_run = rng.chance(1, 8);
    // in one run out of three every generated program has the same file name
    let same_name_run = rng.chance(1, 3);
    let max_corpus_len: u64 = if thorough { 1 << 20 } else { 2500 };
    for i in 0..k {
        let use_corpus = !(classic_twin_run && i == 0)
            && !corp.is_empty()
            && rng.chance(1, if thorough { 3 } else { 6 });
        if use_corpus {
            let cands: Vec<&(String, String, u64)> =
                corp.iter().filter(|c| c.2 <= max_corpus_len).collect();
            if !cands.is_empty() {
                let c = *rng.pick(&cands);
                let dir = std::path::Path::new(&c.0)
                    .parent()
                    .map(|p| p.to_string_lossy().into_owned())
                    .unwrap_or_default();
                progs.push(Prog {
                    name: c.0.clone(),
                    text: c.1.clone(),
                    search: vec![
                        dir,
                        CORPUS_ROOT.to_string(),
                        format!("{}/lib", CORPUS_ROOT),
                        format!("{}/bls", CORPUS_ROOT),
                    ],
                    with_opts: rng.chance(1, 2),
                    corpus: true,
                    files: vec![],
                    cli: rng.chance(1, 5),
                    ops_version: match rng.below(10) {
                        0 => Some(0),
                        1 => Some(1),
                        _ => None,
                    },
                    direct: if rng.chance(1, 8) { Some(rng.below(16) as u8) } else { None },
                    py: false,
                });
                continue;
            }
        }
        if !(classic_twin_run && i == 0) && rng.chance(1, 6) {
            let c = rng.below(CANARIES.len() as u64) as usize;
            progs.push(Prog {
                name: format!("canary{}.clsp", c),
                text: CANARIES[c].to_string(),
                search: vec![],
                with_opts: rng.chance(1, 2),
                corpus: false,
                files: vec![],
                cli: rng.chance(1, 5),
                ops_version: match rng.below(10) {
                    0 => Some(0),
                    1 => Some(1),
                    _ => None,
                },
                direct: if rng.chance(1, 8) { Some(rng.below(16) as u8) } else { None },
                py: false,
            });
            continue;
        }
        // dialect mix biased towards the optimising dialects, which do the most
        let mut d = *rng.pick(&[0usize, 0, 1, 2, 3, 3, 4, 4, 4, 4, 5, 5, 5, 6, 6, 6]);
        if classic_twin_run && i == 0 {
            d = 0;
        }
        let size = *rng.pick(&[15u32, 30, 50, 80]);
        let mut text = gen_prog::program(rng, d, size);
        let mut files: Vec<(String, String)> = Vec::new();
        let mut search: Vec<String> = vec![];
        // move some helper forms into include files: same program, but the preprocessor and
        // read_new_file take part, and every file read is one more interleaving point
        if !(classic_twin_run && i == 0) && rng.chance(1, 3) {
            if let Some(gen_prog::Sx::List(items)) = gen_prog::parse(&text) {
                let first_helper = if d == 0 { 2 } else { 3 };
                let helpers: Vec<usize> = (first_helper..items.len().saturating_sub(1)).collect();
                if !helpers.is_empty() {
                    let nfiles = rng.range(1, 2) as usize;
                    let mut new_items: Vec<gen_prog::Sx> = Vec::new();
                    let mut buckets: Vec<Vec<gen_prog::Sx>> = vec![Vec::new(); nfiles];
                    let mut placed = vec![false; nfiles];
                    for (ix, it) in items.iter().enumerate() {
                        if helpers.contains(&ix) && rng.chance(1, 2) {
                            let b = rng.below(nfiles as u64) as usize;
                            buckets[b].push(it.clone());
                            if !placed[b] {
                                placed[b] = true;
                                let name = format!("lib{}.clib", b);
                                new_items.push(gen_prog::Sx::List(vec![
                                    gen_prog::Sx::Atom("include".to_string()),
                                    gen_prog::Sx::Atom(if rng.chance(1, 3) {
                                        format!("\"{}\"", name)
                                    } else {
                                        name
                                    }),
                                ]));
                            }
                        } else {
                            new_items.push(it.clone());
                        }
                    }
                    if placed.iter().any(|p| *p) {
                        text = gen_prog::print(&gen_prog::Sx::List(new_items));
                        for (b, forms) in buckets.into_iter().enumerate() {
                            if placed[b] {
                                files.push((
                                    format!("lib{}.clib", b),
                                    gen_prog::print(&gen_prog::Sx::List(forms)),
                                ));
                            }
                        }
                        search = vec![format!("r/p{}", i)];
                    }
                }
            }
        }
        progs.push(Prog {
            name: if same_name_run { "main.clsp".to_string() } else { format!("p{}.clsp", i) },
            text,
            search,
            with_opts: rng.chance(1, 2),
            corpus: false,
            files,
            cli: rng.chance(1, 5),
            ops_version: match rng.below(10) {
                0 => Some(0),
                1 => Some(1),
                _ => None,
            },
            direct: if rng.chance(1, 8) { Some(rng.below(16) as u8) } else { None },
            py: false,
        });
    }
    // a near twin of one of the generated programs (same shape, one atom changed)
    let mut twin_pair: Option<(usize, usize)> = None;
    if progs.len() < 4 && (classic_twin_run || rng.chance(2, 5)) {
        let cands: Vec<usize> = (0..progs.len())
            .filter(|i| !progs[*i].corpus && progs[*i].files.is_empty())
            .collect();
        if !cands.is_empty() {
            // classic programs first: their compiler keeps the most state of its own
            let classic: Vec<usize> = cands
                .iter()
                .copied()
                .filter(|i| !progs[*i].text.contains("(include *"))
                .collect();
            let src = if classic_twin_run && !progs[0].corpus {
                0
            } else if !classic.is_empty() && rng.chance(2, 3) {
                *rng.pick(&classic)
            } else {
                *rng.pick(&cands)
            };
            if let Some(t) = gen_prog::near_twin(&progs[src].text, rng) {
                let mut twin = progs[src].clone();
                twin.name = format!("twin{}.clsp", src);
                twin.text = t;
                progs.push(twin);
                twin_pair = Some((progs.len() - 1, src));
            }
        }
    }
    // a long-history run (one in twenty-five) always contains the pair of canaries made for
    // it: a cheap program full of `(mod ...)` expressions to repeat, and a probe
    let long_history_run = rng.chance(1, 25);
    let mut long_pair: Option<(usize, usize)> = None;
    if long_history_run {
        let find = |needle: &str| CANARIES.iter().position(|c| c.contains(needle));
        if let (Some(l), Some(pr)) = (find("(mod (Z) (+ Z 12))"), find("PASSWORD_HASH")) {
            for c in [l, pr] {
                progs.push(Prog {
                    name: format!("canary{}.clsp", c),
                    text: CANARIES[c].to_string(),
                    search: vec![],
                    with_opts: true,
                    corpus: false,
                    files: vec![],
                    cli: false,
                    ops_version: None,
                    direct: None,
                    py: false,
                });
            }
            long_pair = Some((progs.len() - 2, progs.len() - 1));
        }
    }
    // a dialect twin: the same text under the sibling dialect that shares its stepping
    // (cl23 <-> cl23.1, cl21 <-> strict-cl-21, cl23.1 <-> cl24): state keyed by stepping or
    // left behind by the sibling shows up here
    let mut dialect_pair: Option<(usize, usize)> = None;
    if progs.len() < 5 && rng.chance(1, 4) {
        const SIBLINGS: [(&str, &str); 6] = [
            ("*standard-cl-23*", "*standard-cl-23.1*"),
            ("*standard-cl-23.1*", "*standard-cl-23*"),
            ("*standard-cl-21*", "*strict-cl-21*"),
            ("*strict-cl-21*", "*standard-cl-21*"),
            ("*standard-cl-24*", "*standard-cl-23.1*"),
            ("*standard-cl-22*", "*standard-cl-21*"),
        ];
        let cands: Vec<usize> = (0..progs.len())
            .filter(|i| !progs[*i].corpus && progs[*i].files.is_empty())
            .collect();
        if !cands.is_empty() {
            let src = *rng.pick(&cands);
            for (a, b) in SIBLINGS.iter() {
                let needle = format!("(include {})", a);
                if progs[src].text.contains(&needle) {
                    let mut twin = progs[src].clone();
                    twin.name = format!("sibling{}.clsp", src);
                    twin.text = progs[src].text.replacen(&needle, &format!("(include {})", b), 1);
                    progs.push(twin);
                    dialect_pair = Some((progs.len() - 1, src));
                    break;
                }
            }
        }
    }
    // an include-edit twin: the same program text, one of its include files edited (same
    // name, same path, other contents) - what an editor does between two builds
    let mut include_pair: Option<(usize, usize)> = None;
    if progs.len() < 5 && rng.chance(1, 3) {
        let cands: Vec<usize> = (0..progs.len())
            .filter(|i| !progs[*i].files.is_empty())
            .collect();
        if !cands.is_empty() {
            let src = *rng.pick(&cands);
            let mut twin = progs[src].clone();
            let fi = rng.below(twin.files.len() as u64) as usize;
            // half of the edits keep the file's length (one digit becomes another)
            let structural = if rng.chance(1, 2) {
                gen_prog::near_twin(&twin.files[fi].1, rng)
            } else {
                None
            };
            let edited = match structural {
                Some(t) => Some(t),
                None => {
                    // change the first number in the file
                    let t = &twin.files[fi].1;
                    t.find(|c: char| c.is_ascii_digit()).map(|ix| {
                        let mut u = t.clone();
                        u.replace_range(ix..ix + 1, "7");
                        if u == *t {
                            u.replace_range(ix..ix + 1, "3");
                        }
                        u
                    })
                }
            };
            if let Some(e) = edited {
                if e != twin.files[fi].1 {
                    twin.files[fi].1 = e;
                    twin.name = format!("edited{}.clsp", src);
                    progs.push(twin);
                    include_pair = Some((progs.len() - 1, src));
                }
            }
        }
    }
    // option twins: one text under two operator-set options, back to back on one thread -
    // an option that sticks to the thread (or to a cache) shows up in the second compile
    let mut option_pair: Option<(usize, usize)> = None;
    if progs.len() < 6 && rng.chance(1, 5) {
        const OPS_SENSITIVE: [&str; 2] = [
            "(mod (X) (include *standard-cl-23*) (defun f (A) (+ A (% 1000 7))) (f X))",
            "(mod (X) (include *standard-cl-23*) (defconst K (modpow 2 10 1000)) (+ X K))",
        ];
        let text = OPS_SENSITIVE[rng.below(2) as usize];
        let versions = [None, Some(0u8), Some(1u8)];
        let va = rng.below(3) as usize;
        let vb = (va + 1 + rng.below(2) as usize) % 3;
        let cli = rng.chance(1, 3);
        for (k, v) in [versions[va], versions[vb]].iter().enumerate() {
            progs.push(Prog {
                name: format!("opsv{}.clsp", k),
                text: text.to_string(),
                search: vec![],
                with_opts: true,
                corpus: false,
                files: vec![],
                cli,
                ops_version: *v,
                direct: None,
                py: false,
            });
        }
        option_pair = Some((progs.len() - 1, progs.len() - 2));
    }
    // one run in eight goes through the command line front end only
    if rng.chance(1, 8) {
        for p in progs.iter_mut() {
            p.cli = true;
        }
    }
    // one run in eight goes through the Python binding only, and elsewhere one program in ten
    let all_py = rng.chance(1, 8);
    for p in progs.iter_mut() {
        let one = rng.chance(1, 10);
        if (all_py || one) && !p.cli {
            p.py = true;
            p.direct = None;
        }
    }
    let k = progs.len();
    let max_t = if thorough { 8 } else { 4 };
    let nt = match rng.below(4) {
        0 => 1,
        1 => 2,
        _ => rng.range(1, max_t) as usize,
    };
    let mut threads = Vec::new();
    for _ in 0..nt {
        let nops = rng.range(1, 6) as usize;
        let mut ops = Vec::new();
        for _ in 0..nops {
            let kind = match rng.below(10) {
                0..=5 => OpK::Compile(rng.below(k as u64) as usize),
                6..=7 => OpK::SetCounter(biased_counter(rng)),
                _ => OpK::Fail(rng.below(FAILERS.len() as u64) as usize),
            };
            let is_compile = matches!(kind, OpK::Compile(_));
            ops.push(OpSpec {
                kind,
                ambient: if rng.chance(1, 4) {
                    Some(rng.chance(1, 2))
                } else {
                    None
                },
                reenter: if is_compile && rng.chance(1, 6) {
                    let what = if rng.chance(1, 2) {
                        Re::Prog(rng.below(k as u64) as usize)
                    } else {
                        Re::Fail(rng.below(FAILERS.len() as u64) as usize)
                    };
                    Some((what, rng.below(3) as u8))
                } else {
                    None
                },
            });
        }
        // make sure each thread observes something
        if !ops.iter().any(|o| matches!(o.kind, OpK::Compile(_))) {
            ops.push(OpSpec {
                kind: OpK::Compile(rng.below(k as u64) as usize),
                ambient: None,
                reenter: None,
            });
        }
        threads.push(ThreadSpec {
            ops,
            reuse_allocator: rng.chance(1, 6),
        });
    }
    // the twin and its original back to back on one thread, in either order
    for (tw, src) in twin_pair
        .into_iter()
        .chain(dialect_pair.into_iter())
        .chain(include_pair.into_iter())
        .chain(option_pair.into_iter())
    {
        let (a, b) = if rng.chance(1, 2) { (tw, src) } else { (src, tw) };
        let t = rng.below(threads.len() as u64) as usize;
        let at = rng.below(threads[t].ops.len() as u64 + 1) as usize;
        for (k, p) in [a, b].iter().enumerate() {
            threads[t].ops.insert(
                at + k,
                OpSpec {
                    kind: OpK::Compile(*p),
                    ambient: None,
                    reenter: None,
                },
            );
        }
        // ... sometimes after a compilation that failed (by error or by unwinding)
        if rng.chance(1, 2) {
            threads[t].ops.insert(
                at,
                OpSpec {
                    // half of the time one of the failures that unwind (the last two)
                    kind: OpK::Fail(if rng.chance(1, 2) {
                        FAILERS.len() - 1 - rng.below(2) as usize
                    } else {
                        rng.below(FAILERS.len() as u64) as usize
                    }),
                    ambient: None,
                    reenter: None,
                },
            );
        }
    }
    // a long history: one run in twenty-five has a thread that compiles one small program
    // (a canary or a short generated one) many times in a row
    if long_history_run {
        let small: Vec<usize> = (0..progs.len())
            .filter(|i| !progs[*i].corpus && !progs[*i].cli && progs[*i].text.len() < 1400)
            .collect();
        if !small.is_empty() {
            let (p, n) = match long_pair {
                Some((l, _)) if rng.chance(2, 3) => (l, *rng.pick(&[60u32, 100, 140])),
                _ => (*rng.pick(&small), *rng.pick(&[20u32, 60, 120])),
            };
            let mut ops = vec![OpSpec {
                kind: OpK::Repeat(p, n),
                ambient: None,
                reenter: None,
            }];
            // ... and then everything else, on the same (now old) thread
            for q in 0..progs.len() {
                if q != p {
                    ops.push(OpSpec {
                        kind: OpK::Compile(q),
                        ambient: None,
                        reenter: None,
                    });
                }
            }
            threads.push(ThreadSpec {
                ops,
                reuse_allocator: false,
            });
        }
    }
    let n_threads = threads.len();
    let n_progs = progs.len();
    let mut w = Workload {
        progs,
        threads,
        // with several threads, mostly allow preemption inside compiles (overlapping
        // compilations are what cross-thread state needs)
        preempt_points: if n_threads >= 2 && rng.chance(4, 5) {
            rng.range(1, 3) as u8
        } else {
            rng.below(4) as u8
        },
        stay_weight: *rng.pick(&[1u8, 1, 2, 6]),
        work_limit: if thorough { 600_000_000 } else { 50_000_000 },
        stall_pm: if rng.chance(1, 3) {
            *rng.pick(&[100u16, 300, 700])
        } else {
            0
        },
        fresh: None,
    };
    // drawn last, so that the rest of a run's workload is what it was before this existed
    if rng.chance(1, 3) {
        let target = rng.below(n_progs as u64) as usize;
        let mut history = Vec::new();
        for _ in 0..rng.range(1, 3) {
            history.push(if rng.chance(1, 4) {
                Re::Fail(rng.below(FAILERS.len() as u64) as usize)
            } else {
                // prefer another program than the target: what the first compile of a
                // process leaves behind shows when the two differ in dialect or options
                let q = rng.below(n_progs as u64) as usize;
                if q == target && n_progs > 1 {
                    Re::Prog((q + 1) % n_progs)
                } else {
                    Re::Prog(q)
                }
            });
        }
        w.fresh = Some(FreshSpec { history, target });
    }
    w
}

// ---------------------------------------------------------------------------------------
// policies
// ---------------------------------------------------------------------------------------

struct RefPolicy {
    results: Vec<Option<ResInfo>>,
}

impl Policy for RefPolicy {
    fn check(&mut self, _c: &StepCtx) -> Result<(), Violation> {
        Ok(())
    }
    fn decide(&mut self, _a: usize, op: &Op, _t: &mut Tape, _w: &Arc<World>) -> Decision {
        if op.kind == OpKind::Boundary && op.path == "res" {
            let r = parse_info(&op.path2);
            if !r.nested && r.p < self.results.len() {
                let p = r.p;
                self.results[p] = Some(r);
            }
        }
        Decision::proceed()
    }
    fn finish(&mut self, _w: &Arc<World>, _e: &[Event]) -> Result<(), Violation> {
        Ok(())
    }
}

#[derive(Clone, Default)]
struct ThreadTrack {
    op_index: usize,
    prior_fail: bool,
    preempts_left: u8,
    switches_in_op: u32,
    ctr_at_op: u64,
    in_op: bool,
}

pub struct Mismatch {
    pub prog: usize,
    pub what: String,
    pub reference: ResInfo,
    pub got: ResInfo,
    pub vector: serde_json::Value,
}

pub struct C05Policy {
    w: Workload,
    refs: Vec<Option<ResInfo>>,
    tracks: Vec<ThreadTrack>,
    deferred: Option<Violation>,
    pub mismatch: Option<Mismatch>,
    pub probes: Probes,
    pub compares: u64,
    pub nontrivial_compares: u64,
    pub pair_keys: Vec<u64>,
    last_actor: Option<usize>,
    step: u32,
    max_ref_allocs: u64,
}

impl C05Policy {
    fn vector(&self, actor: usize, op: &OpSpec, t: &ThreadTrack) -> serde_json::Value {
        serde_json::json!({
            "thread": actor,
            "op_index": t.op_index,
            "counter_at_start": t.ctr_at_op,
            "ambient_mode": op.ambient,
            "reentered_by": op.reenter.as_ref().map(|r| format!("{:?}", r)),
            "earlier_failure_on_thread": t.prior_fail,
            "context_switches_during_compile": t.switches_in_op,
            "reused_allocator": self.w.threads[actor].reuse_allocator,
        })
    }
}

impl Policy for C05Policy {
    fn stay_weight(&self) -> u32 {
        self.w.stay_weight.max(1) as u32
    }
    fn check(&mut self, ctx: &StepCtx) -> Result<(), Violation> {
        self.step = ctx.step;
        if let Some(v) = self.deferred.take() {
            return Err(v);
        }
        Ok(())
    }
    fn decide(&mut self, actor: usize, op: &Op, tape: &mut Tape, world: &Arc<World>) -> Decision {
        // a stalled machine: time passes while this compile is parked
        if self.w.stall_pm > 0
            && self.tracks[actor].in_op
            && tape.chance("stall", self.w.stall_pm as u32, 1000)
        {
            const JUMPS_S: [u64; 4] = [2, 45, 1200, 93_600];
            let k = tape.below("stall_len", JUMPS_S.len() as u64) as usize;
            world.advance_clock(JUMPS_S[k] * 1_000_000_000);
            self.probes.fault("clock_jump_inside_compile");
            if op.kind == OpKind::Boundary && op.path == "clock" {
                self.probes.hit("clock_jump_right_before_the_compiler_reads_the_clock");
            }
        }
        // count context switches that land inside somebody's compile
        if let Some(l) = self.last_actor {
            if l != actor {
                for (i, t) in self.tracks.iter_mut().enumerate() {
                    if t.in_op && (i == l || i == actor) {
                        t.switches_in_op += 1;
                    }
                }
            }
        }
        self.last_actor = Some(actor);
        let mut next_preempt = 0u64;
        match op.kind {
            OpKind::Boundary => match op.path.as_str() {
                "op" => {
                    let oi: usize = op.path2.parse().unwrap_or(0);
                    let t = &mut self.tracks[actor];
                    t.op_index = oi;
                    t.switches_in_op = 0;
                    t.in_op = true;
                    t.ctr_at_op = ARGNAME_CTR.load(Ordering::SeqCst) as u64;
                    t.preempts_left = self.w.preempt_points;
                    if let Some(spec) = self.w.threads[actor].ops.get(oi) {
                        if let OpK::SetCounter(v) = spec.kind {
                            // takes effect right after this boundary
                            let _ = v;
                        }
                        if t.preempts_left > 0 && matches!(spec.kind, OpK::Compile(_) | OpK::Fail(_) | OpK::Repeat(_, _)) {
                            t.preempts_left -= 1;
                            next_preempt = 1 + tape.below("preempt", self.max_ref_allocs.max(1));
                        }
                    }
                }
                "failed" => {
                    let t = &mut self.tracks[actor];
                    t.prior_fail = true;
                    t.in_op = false;
                    self.probes.hit(&format!("failing_compile_{}", op.path2));
                }
                "res" => {
                    let got = parse_info(&op.path2);
                    let t = self.tracks[actor].clone();
                    let spec = self.w.threads[actor].ops.get(t.op_index).cloned();
                    if !got.nested {
                        self.tracks[actor].in_op = false;
                    }
                    if let (Some(spec), Some(Some(r))) = (spec, self.refs.get(got.p).cloned()) {
                        self.compares += 1;
                        let reuse = self.w.threads[actor].reuse_allocator && !got.nested;
                        let mut what = String::new();
                        if got.class != r.class && !(got.class != "ok" && r.class != "ok") {
                            what = format!(
                                "result class differs: reference {}, here {}",
                                r.class, got.class
                            );
                        } else if got.class == "ok" {
                            if got.bytes_digest != r.bytes_digest || got.len != r.len {
                                what = format!(
                                    "emitted CLVM differs from the reference compile ({} vs {} bytes)",
                                    got.len, r.len
                                );
                            } else if !reuse && got.syms_digest != "-" && got.syms_digest != r.syms_digest {
                                what = "symbol entries differ from the reference compile".to_string();
                            }
                        }
                        let ctr_class = if t.ctr_at_op == 0 {
                            0
                        } else {
                            format!("{}", t.ctr_at_op).len()
                        };
                        let nontrivial = got.class == "ok" && r.fresh_names;
                        if nontrivial {
                            self.nontrivial_compares += 1;
                            let mut h = FNV_INIT;
                            fnv1a(&mut h, self.w.progs[got.p].text.as_bytes());
                            fnv1a(&mut h, &[
                                ctr_class as u8,
                                spec.ambient.map(|b| 1 + b as u8).unwrap_or(0),
                                t.prior_fail as u8,
                                (t.switches_in_op.min(3)) as u8,
                                spec.reenter.is_some() as u8,
                                reuse as u8,
                                got.nested as u8,
                                self.w.progs[got.p].with_opts as u8,
                            ]);
                            self.pair_keys.push(h);
                            if t.switches_in_op > 0 {
                                self.probes.hit("compile_preempted_by_another_thread");
                            }
                            if self.w.progs[got.p].py && !self.w.progs[got.p].cli && crate::pybind::available() {
                                self.probes.hit("compile_through_python_binding_compared");
                            }
                            if spec.reenter.is_some() && !got.nested {
                                self.probes.hit("compile_reentered_from_read_new_file");
                            }
                            if got.nested {
                                self.probes.hit("nested_compile_compared");
                            }
                            if spec.ambient.is_some() {
                                self.probes.hit("compile_under_ambient_int_mode");
                            }
                            if t.prior_fail {
                                self.probes.hit("compile_after_failure_on_same_thread");
                            }
                            if ctr_class >= 2 {
                                self.probes.hit("compile_with_counter_of_2plus_digits");
                            }
                            if reuse {
                                self.probes.hit("compile_with_reused_allocator");
                            }
                        }
                        if !what.is_empty() && self.deferred.is_none() {
                            let vector = self.vector(actor, &spec, &t);
                            let prog = &self.w.progs[got.p];
                            let msg = format!(
                                "program {} ({}): {}",
                                got.p,
                                if prog.corpus { prog.name.clone() } else { format!("generated, {} bytes", prog.text.len()) },
                                what
                            );
                            self.mismatch = Some(Mismatch {
                                prog: got.p,
                                what: what.clone(),
                                reference: r.clone(),
                                got: got.clone(),
                                vector,
                            });
                            let inv = if what.starts_with("result class") {
                                "C05-class"
                            } else if what.starts_with("emitted") {
                                "C05-bytes"
                            } else {
                                "C05-symbols"
                            };
                            self.deferred = Some(Violation {
                                invariant: inv.to_string(),
                                message: msg,
                                step: self.step,
                            });
                        }
                    }
                }
                _ => {}
            },
            OpKind::Preempt => {
                self.probes.fault("allocation_count_preemption");
                let t = &mut self.tracks[actor];
                if t.preempts_left > 0 {
                    t.preempts_left -= 1;
                    next_preempt = 1 + tape.below("preempt", self.max_ref_allocs.max(1));
                }
            }
            _ => {}
        }
        Decision {
            action: Action::Proceed,
            next_preempt,
        }
    }
    fn finish(&mut self, _w: &Arc<World>, _e: &[Event]) -> Result<(), Violation> {
        if let Some(v) = self.deferred.take() {
            return Err(v);
        }
        Ok(())
    }
}

// ---------------------------------------------------------------------------------------
// one run
// ---------------------------------------------------------------------------------------

pub const REF_ENTROPY: u64 = 0x5EED_0000_C05;

pub fn run_one(w: &Workload, tape: &mut Tape, entropy_seed: u64) -> Result<RunReport, String> {
    let progs = Arc::new(w.progs.clone());
    // include files of generated programs live in the sandbox
    let _ = std::fs::remove_dir_all("r");
    let _ = std::fs::create_dir_all("r/fail");
    let _ = std::fs::write("r/fail/empty.clib", b"");
    for (i, p) in w.progs.iter().enumerate() {
        let _ = i;
        if p.cli && !p.corpus {
            let _ = std::fs::create_dir_all(format!("r/src/{}", i));
            let _ = std::fs::write(format!("r/src/{}/{}", i, p.name), &p.text);
        }
        for (name, content) in p.files.iter() {
            for dir in p.search.iter().filter(|d| d.starts_with("r/")) {
                let _ = std::fs::create_dir_all(dir);
                write_stamped(&format!("{}/{}", dir, name), content);
            }
        }
    }
    // phase R: every program gets a reference thread of its own (fresh thread-local state,
    // constant entropy, name counter 0), one after the other
    let mut rp = RefPolicy {
        results: vec![None; w.progs.len()],
    };
    let mut out_r = sched::RunOutcome {
        events: vec![],
        violation: None,
        truncated: false,
        panics: vec![],
        log_hash: 0,
        switches: 0,
    };
    for p in 0..w.progs.len() {
        let world = seam::new_world(1, false, 1_000_000_000_000);
        let specs = vec![ActorSpec {
            name: "reference".to_string(),
            entropy_seed: REF_ENTROPY,
            skew_ns: 0,
            stack_bytes: 64 << 20,
            body: ref_body(progs.clone(), p),
        }];
        let o = sched::run(world, specs, tape, &mut rp, 100_000, Duration::from_secs(600))
            .map_err(|e| format!("{:?}", e))?;
        let base = out_r.events.len() as u32;
        for mut e in o.events {
            e.step += base;
            out_r.events.push(e);
        }
        out_r.truncated |= o.truncated;
    }
    let max_ref_allocs = rp
        .results
        .iter()
        .flatten()
        .map(|r| r.allocs)
        .max()
        .unwrap_or(1);

    // deterministic cost guard: allocation counts measured in the reference phase
    let work: u64 = w
        .threads
        .iter()
        .flat_map(|t| t.ops.iter())
        .map(|o| match (&o.kind, &o.reenter) {
            (OpK::Repeat(p, n), _) => {
                // repeats are of small programs only; they count at a reduced weight so that
                // the guard does not cancel exactly the long histories they exist for
                rp.results.get(*p).and_then(|r| r.as_ref()).map(|r| r.allocs).unwrap_or(0)
                    * *n as u64
                    / 8
            }
            (OpK::Compile(p), re) => {
                let own = rp.results.get(*p).and_then(|r| r.as_ref()).map(|r| r.allocs).unwrap_or(0);
                let nested = match re {
                    Some((Re::Prog(q), _)) => rp.results.get(*q).and_then(|r| r.as_ref()).map(|r| r.allocs).unwrap_or(0),
                    _ => 0,
                };
                own + nested
            }
            _ => 0,
        })
        .sum();
    if w.work_limit > 0 && work > w.work_limit {
        let mut probes = Probes::default();
        probes.hit("run_skipped_perturbed_phase_too_heavy");
        let log_hash = sched::hash_events(&out_r.events);
        return Ok(RunReport {
            violation: None,
            steps: out_r.events.len() as u32,
            events: out_r.events,
            tape: tape.rec.clone(),
            distinct_key: log_hash,
            log_hash,
            nontrivial: false,
            truncated: false,
            sim_ns: 0,
            probes,
            panics: vec![],
            detail: serde_json::json!({"skipped": "perturbed phase too heavy", "work": work}),
            extra_keys: vec![],
        });
    }

    // phase P
    let nt = w.threads.len();
    let world = seam::new_world(nt, false, 2_000_000_000_000);
    let mut specs = Vec::new();
    for (i, t) in w.threads.iter().enumerate() {
        specs.push(ActorSpec {
            name: format!("thread{}", i),
            entropy_seed: mix(entropy_seed, i as u64 + 1),
            skew_ns: 0,
            stack_bytes: 64 << 20,
            body: thread_body(progs.clone(), t.clone(), w.stall_pm > 0),
        });
    }
    let mut pol = C05Policy {
        w: w.clone(),
        refs: rp.results.clone(),
        tracks: vec![ThreadTrack::default(); nt],
        deferred: None,
        mismatch: None,
        probes: Probes::default(),
        compares: 0,
        nontrivial_compares: 0,
        pair_keys: vec![],
        last_actor: None,
        step: 0,
        max_ref_allocs,
    };
    ARGNAME_CTR.store(0, Ordering::SeqCst);
    let out = sched::run(world.clone(), specs, tape, &mut pol, 100_000, Duration::from_secs(900))
        .map_err(|e| format!("{:?}", e))?;
    ARGNAME_CTR.store(0, Ordering::SeqCst);

    // phase F: the fresh-process pair
    let mut fresh_probes = Probes::default();
    let mut fresh_mismatch: Option<(Violation, serde_json::Value)> = None;
    if let (Some(f), None) = (&w.fresh, &out.violation) {
        let cost = |r: &Re| match r {
            Re::Prog(q) => rp.results.get(*q).and_then(|r| r.as_ref()).map(|r| r.allocs).unwrap_or(0),
            Re::Fail(_) => 0,
        };
        let work_f: u64 = f.history.iter().map(cost).sum::<u64>() + cost(&Re::Prog(f.target));
        if f.target >= w.progs.len() || work_f > 12_000_000 {
            fresh_probes.hit("fresh_pair_skipped_too_heavy");
        } else {
            let op = |kind: OpK| OpSpec { kind, ambient: None, reenter: None };
            let tail = vec![op(OpK::SetCounter(0)), op(OpK::Compile(f.target))];
            let mut aged: Vec<OpSpec> = f
                .history
                .iter()
                .filter_map(|r| match r {
                    Re::Prog(q) if *q < w.progs.len() => Some(op(OpK::Compile(*q))),
                    Re::Prog(_) => None,
                    Re::Fail(x) => Some(op(OpK::Fail(*x))),
                })
                .collect();
            aged.extend(tail.iter().cloned());
            let a = fresh_child(&w.progs, &tail);
            let b = fresh_child(&w.progs, &aged);
            match (a, b) {
                (Some(a), Some(b)) => {
                    fresh_probes.hit("fresh_process_pair_compared");
                    let (ra, rb) = (parse_info(&a), parse_info(&b));
                    if ra.class == "ok" && ra.fresh_names {
                        fresh_probes.hit("fresh_process_pair_compared_nontrivial");
                    }
                    let what = if ra.class != rb.class {
                        Some("C05-class")
                    } else if ra.bytes_digest != rb.bytes_digest {
                        Some("C05-bytes")
                    } else if ra.syms_digest != rb.syms_digest {
                        Some("C05-symbols")
                    } else {
                        None
                    };
                    if let Some(what) = what {
                        let v = Violation {
                            invariant: what.to_string(),
                            message: format!(
                                "fresh-process pair: program {} compiled as the first compile of a new process and after {:?} in another new process differ ({} / {} bytes)",
                                f.target, f.history, ra.len, rb.len
                            ),
                            step: 0,
                        };
                        let d = serde_json::json!({
                            "program": w.progs[f.target].text,
                            "program_name": w.progs[f.target].name,
                            "what": format!("{} between two fresh processes", what),
                            "perturbation": {"fresh_process_history": f.history},
                            "reference": {"class": ra.class, "len": ra.len, "bytes_sha256_prefix": ra.bytes_digest, "hex": ra.hex, "symbols": ra.syms},
                            "observed": {"class": rb.class, "len": rb.len, "bytes_sha256_prefix": rb.bytes_digest, "hex": rb.hex, "symbols": rb.syms},
                        });
                        fresh_mismatch = Some((v, d));
                    }
                }
                _ => fresh_probes.hit("fresh_pair_child_gave_no_result"),
            }
        }
    }

    let mut events = out_r.events;
    let base = events.len() as u32;
    for mut e in out.events {
        e.step += base;
        e.actor += 1;
        events.push(e);
    }
    let log_hash = sched::hash_events(&events);
    let mut probes = pol.probes.clone();
    probes.merge(&fresh_probes);
    probes.hit_n("compiles_compared", pol.compares);
    probes.hit_n("nontrivial_compiles_compared", pol.nontrivial_compares);
    let ref_ok = rp.results.iter().flatten().filter(|r| r.class == "ok").count();
    probes.hit_n("reference_compiles_ok", ref_ok as u64);
    probes.hit_n("reference_compiles_total", w.progs.len() as u64);
    let mut h = FNV_INIT;
    fnv1a(&mut h, serde_json::to_string(w).unwrap().as_bytes());
    fnv1a(&mut h, &log_hash.to_le_bytes());
    let (fresh_violation, fresh_detail) = match fresh_mismatch {
        Some((v, d)) => (Some(v), Some(d)),
        None => (None, None),
    };
    let detail = match &pol.mismatch {
        _ if fresh_detail.is_some() => fresh_detail.unwrap(),
        Some(m) => serde_json::json!({
            "program": w.progs[m.prog].text,
            "program_name": w.progs[m.prog].name,
            "what": m.what,
            "perturbation": m.vector,
            "reference": {"class": m.reference.class, "len": m.reference.len, "bytes_sha256_prefix": m.reference.bytes_digest, "hex": m.reference.hex, "symbols": m.reference.syms},
            "observed": {"class": m.got.class, "len": m.got.len, "bytes_sha256_prefix": m.got.bytes_digest, "hex": m.got.hex, "symbols": m.got.syms},
        }),
        None => serde_json::json!({
            "compiles_compared": pol.compares,
            "programs": w.progs.iter().map(|p| if p.corpus { p.name.clone() } else { p.text.chars().take(160).collect::<String>() }).collect::<Vec<_>>(),

        }),
    };
    Ok(RunReport {
        violation: out.violation.or(fresh_violation),
        steps: events.len() as u32,
        events,
        tape: tape.rec.clone(),
        distinct_key: h,
        log_hash,
        nontrivial: pol.nontrivial_compares > 0,
        truncated: out.truncated || out_r.truncated,
        sim_ns: world.now_ns() - 2_000_000_000_000,
        probes,
        panics: out.panics,
        detail,
        extra_keys: pol.pair_keys.clone(),
    })
}

// ---------------------------------------------------------------------------------------
// fresh-process pair: `dsim c05-fresh` is exec'ed in the worker's sandbox directory
// ---------------------------------------------------------------------------------------

/// Runs `ops` on one thread of a newly exec'ed dsim (no warm-up of the compiler: the first
/// operation is the first compile that process has ever done) and returns the result record
/// of the last compile.  None: the child crashed, overflowed its stack or took too long.
fn fresh_child(progs: &[Prog], ops: &[OpSpec]) -> Option<String> {
    let exe = std::env::current_exe().ok()?;
    let input = serde_json::json!({"progs": progs, "ops": ops}).to_string();
    std::fs::write("fresh-in.json", input).ok()?;
    let _ = std::fs::remove_file("fresh-out.txt");
    let mut child = std::process::Command::new(exe)
        .arg("c05-fresh")
        .stdin(std::process::Stdio::null())
        .stdout(std::process::Stdio::null())
        .stderr(std::process::Stdio::null())
        .spawn()
        .ok()?;
    let t0 = std::time::Instant::now();
    let status = loop {
        match child.try_wait() {
            Ok(Some(st)) => break Some(st),
            Ok(None) => {
                if t0.elapsed() > Duration::from_secs(120) {
                    let _ = child.kill();
                    let _ = child.wait();
                    break None;
                }
                std::thread::sleep(Duration::from_millis(2));
            }
            Err(_) => break None,
        }
    };
    let out = std::fs::read_to_string("fresh-out.txt").ok();
    let _ = std::fs::remove_file("fresh-in.json");
    let _ = std::fs::remove_file("fresh-out.txt");
    let _ = std::fs::remove_file("main.sym");
    if !status.map(|s| s.success()).unwrap_or(false) {
        return None;
    }
    out?.lines().find_map(|l| l.strip_prefix("RES ").map(|s| s.to_string()))
}

struct FreshPolicy {
    last: Option<String>,
}

impl Policy for FreshPolicy {
    fn check(&mut self, _c: &StepCtx) -> Result<(), Violation> {
        Ok(())
    }
    fn decide(&mut self, _a: usize, op: &Op, _t: &mut Tape, _w: &Arc<World>) -> Decision {
        if op.kind == OpKind::Boundary && op.path == "res" && !parse_info(&op.path2).nested {
            self.last = Some(op.path2.clone());
        }
        Decision::proceed()
    }
    fn finish(&mut self, _w: &Arc<World>, _e: &[Event]) -> Result<(), Violation> {
        Ok(())
    }
}

pub fn fresh_main() -> i32 {
    let cwd = match std::env::current_dir() {
        Ok(c) => c.to_string_lossy().into_owned(),
        Err(_) => return 2,
    };
    seam::set_root(&cwd);
    // the interpreter only: nothing of the compiler runs before the first operation
    crate::pybind::init();
    let v: serde_json::Value = match std::fs::read_to_string("fresh-in.json")
        .ok()
        .and_then(|s| serde_json::from_str(&s).ok())
    {
        Some(v) => v,
        None => return 2,
    };
    let progs: Vec<Prog> = match serde_json::from_value(v["progs"].clone()) {
        Ok(p) => p,
        Err(_) => return 2,
    };
    let ops: Vec<OpSpec> = match serde_json::from_value(v["ops"].clone()) {
        Ok(p) => p,
        Err(_) => return 2,
    };
    let world = seam::new_world(1, false, 1_000_000_000_000);
    let specs = vec![ActorSpec {
        name: "fresh".to_string(),
        entropy_seed: REF_ENTROPY,
        skew_ns: 0,
        stack_bytes: 64 << 20,
        body: thread_body(
            Arc::new(progs),
            ThreadSpec {
                ops,
                reuse_allocator: false,
            },
            false,
        ),
    }];
    let mut pol = FreshPolicy { last: None };
    let mut tape = Tape::generate(1);
    if sched::run(world, specs, &mut tape, &mut pol, 100_000, Duration::from_secs(110)).is_err() {
        return 2;
    }
    match pol.last {
        Some(l) => {
            let _ = std::fs::write("fresh-out.txt", format!("RES {}\n", l));
            0
        }
        None => 3,
    }
}

// ---------------------------------------------------------------------------------------
// Prop
// ---------------------------------------------------------------------------------------

pub struct C05;

fn renumber_prog(w: &Workload, drop: usize) -> Workload {
    let mut c = w.clone();
    c.progs.remove(drop);
    for t in c.threads.iter_mut() {
        t.ops.retain(|o| !matches!(o.kind, OpK::Compile(p) | OpK::Repeat(p, _) if p == drop));
        for o in t.ops.iter_mut() {
            if let OpK::Compile(p) | OpK::Repeat(p, _) = &mut o.kind {
                if *p > drop {
                    *p -= 1;
                }
            }
            let mut clear = false;
            if let Some((Re::Prog(q), _)) = &mut o.reenter {
                if *q == drop {
                    clear = true;
                } else if *q > drop {
                    *q -= 1;
                }
            }
            if clear {
                o.reenter = None;
            }
        }
    }
    c.threads.retain(|t| !t.ops.is_empty());
    if let Some(f) = c.fresh.as_mut() {
        if f.target == drop {
            c.fresh = None;
        } else {
            if f.target > drop {
                f.target -= 1;
            }
            f.history.retain(|r| !matches!(r, Re::Prog(q) if *q == drop));
            for r in f.history.iter_mut() {
                if let Re::Prog(q) = r {
                    if *q > drop {
                        *q -= 1;
                    }
                }
            }
        }
    }
    c
}

impl Prop for C05 {
    type W = Workload;
    fn id() -> &'static str {
        "C05"
    }
    fn init_process() {
        crate::pybind::init();
        // force every lazy static of the compiler on a non-actor thread, so that no actor can
        // ever be preempted inside a `Once`
        for (i, t) in WARMUP.iter().chain(FAILERS.iter()).chain(CANARIES.iter()).enumerate() {
            let mut a = Allocator::new();
            let mut s = HashMap::new();
            let _ = compile_text(t, "warm.clsp", &[], i % 2 == 0, &mut a, &mut s, None);
        }
        // the other entry points and option settings have lazy statics of their own (the
        // command line's argument tables, per-version operator sets): the allocation counts
        // of a run must not depend on which run of the process uses them first
        let _ = std::fs::create_dir_all("r/warm");
        for (i, t) in WARMUP.iter().chain(CANARIES.iter().take(6)).enumerate() {
            let path = format!("r/warm/w{}.clsp", i);
            let _ = std::fs::write(&path, t);
            for v in [None, Some(0u8), Some(1u8)] {
                let _ = compile_cli(&path, &["r/warm".to_string()], v);
                let mut a = Allocator::new();
                let mut s = HashMap::new();
                let _ = compile_text_v(t, "warm.clsp", &[], i % 2 == 1, v, &mut a, &mut s, None);
            }
            for flags in [0u8, 5, 10, 15] {
                let mut a = Allocator::new();
                let mut s = HashMap::new();
                let _ = compile_direct(t, "warm.clsp", &[], flags, &mut a, &mut s);
            }
            let _ = compile_py(t, &[]);
        }
        let _ = std::fs::remove_dir_all("r/warm");
        let _ = std::fs::remove_file("main.sym");
        ARGNAME_CTR.store(0, Ordering::SeqCst);
        let _ = corpus();
    }
    fn generate(rng: &mut Rng, thorough: bool, _idx: u64) -> Workload {
        generate(rng, thorough)
    }
    fn run(w: &Workload, tape: &mut Tape, ent: u64) -> Result<RunReport, String> {
        run_one(w, tape, ent)
    }
    fn shrink(w: &Workload) -> Vec<Workload> {
        let mut out = Vec::new();
        if w.stall_pm > 0 {
            let mut c = w.clone();
            c.stall_pm = 0;
            out.push(c);
        }
        if let Some(f) = &w.fresh {
            let mut c = w.clone();
            c.fresh = None;
            out.push(c);
            if f.history.len() > 1 {
                for i in 0..f.history.len() {
                    let mut c = w.clone();
                    c.fresh.as_mut().unwrap().history.remove(i);
                    out.push(c);
                }
            }
        }
        // drop whole threads, programs, operations
        if w.threads.len() > 1 {
            for i in 0..w.threads.len() {
                let mut c = w.clone();
                c.threads.remove(i);
                out.push(c);
            }
        }
        if w.progs.len() > 1 {
            for i in 0..w.progs.len() {
                let c = renumber_prog(w, i);
                if !c.threads.is_empty() {
                    out.push(c);
                }
            }
        }
        for ti in 0..w.threads.len() {
            if w.threads[ti].ops.len() > 1 {
                for oi in 0..w.threads[ti].ops.len() {
                    let mut c = w.clone();
                    c.threads[ti].ops.remove(oi);
                    out.push(c);
                }
            }
            for oi in 0..w.threads[ti].ops.len() {
                let o = &w.threads[ti].ops[oi];
                if o.ambient.is_some() {
                    let mut c = w.clone();
                    c.threads[ti].ops[oi].ambient = None;
                    out.push(c);
                }
                if o.reenter.is_some() {
                    let mut c = w.clone();
                    c.threads[ti].ops[oi].reenter = None;
                    out.push(c);
                }
                if let OpK::Repeat(p, n) = o.kind {
                    for nn in [1u32, n / 2, n - 1] {
                        if nn >= 1 && nn < n {
                            let mut c = w.clone();
                            c.threads[ti].ops[oi].kind = if nn == 1 {
                                OpK::Compile(p)
                            } else {
                                OpK::Repeat(p, nn)
                            };
                            out.push(c);
                        }
                    }
                }
                if let OpK::SetCounter(v) = o.kind {
                    for nv in [9u64, 99, 1, v / 2] {
                        if nv < v {
                            let mut c = w.clone();
                            c.threads[ti].ops[oi].kind = OpK::SetCounter(nv);
                            out.push(c);
                        }
                    }
                }
            }
            if w.threads[ti].reuse_allocator {
                let mut c = w.clone();
                c.threads[ti].reuse_allocator = false;
                out.push(c);
            }
        }
        if w.preempt_points > 0 {
            let mut c = w.clone();
            c.preempt_points = 0;
            out.push(c);
        }
        // shrink program texts structurally
        for pi in 0..w.progs.len() {
            if w.progs[pi].corpus {
                continue;
            }
            for t in gen_prog::shrink_text(&w.progs[pi].text, 400) {
                let mut c = w.clone();
                c.progs[pi].text = t;
                out.push(c);
            }
        }
        out
    }
    fn known_finding(w: &Workload, rep: &RunReport, known: &[KnownFinding]) -> Option<String> {
        crate::c05_known::classify(w, rep, known)
    }
    fn runs_for_tier(thorough: bool) -> u64 {
        if thorough {
            5_000
        } else {
            500
        }
    }
    fn determinism_runs() -> u64 {
        48
    }
    fn rule() -> &'static str {
        "one evaluation = one simulated process history: 1..4 programs (seeded generator over all seven dialect settings, plus shipped sources under resources/tests) are compiled by a reference actor in canonical state, then by 1..8 perturbed actor threads whose operations (compile, failing compile at nine stages, name-counter jump, ambient integer-mode guard, re-entrant compile from read_new_file, reused allocator) are interleaved by the seeded scheduler at operation boundaries and at allocation-count preemption points, each thread with its own simulated hash entropy; every perturbed compile is compared with the reference (Ok/Err class, bytes, symbol entries with generated-name digits erased); in one run of three, one program is additionally compiled as the very first compile of a newly exec'ed process and after a seeded history (1..3 other programs or failing compiles) in another newly exec'ed process, and the two results are compared the same way. Non-trivial run = at least one compared compile finished Ok for a program whose compile generates at least one fresh name (a modern-dialect program with a function, binding or lambda — the compiler renames every bound name —, a `_$_` entry in its symbol table, or movement of the global name counter) (every perturbed compile differs from the reference at least in thread and hash entropy). Distinct = hash of (complete workload, event log) among non-trivial runs; coverage.distinct_program_perturbation_pairs additionally counts distinct (program text, perturbation vector) pairs."
    }
    fn assumptions() -> Vec<String> {
        vec![
            "several simulated callers share one address space (threads of the harness), which is exactly the situation C05 speaks about".to_string(),
            "hash seeds are varied through the getrandom seam (per-thread RandomState keys); ASLR is left on, so heap addresses also differ between threads and processes".to_string(),
            "error texts are not compared (C05 does not speak about them); only the Ok/Err class".to_string(),
            "exploration samples programs and histories; a clean batch is evidence, not proof".to_string(),
        ]
    }
    fn real_vs_stub() -> serde_json::Value {
        serde_json::json!({
            "real": ["cmds::launch_tool (`run`, with its option parsing) for command-line programs, compiler::compile_file called directly with caller-built options", "clvmc::compile_clvm_text (both classic_with_opts settings) and everything below it: reader, preprocessor, frontend, rename, desugaring, CSE, deinlining, codegen, classic stage_2 compiler, clvmr", "gensym::ARGNAME_CTR, clvm::NewStyleIntConversion, CompilerOpts delegation (public items of the crate used as seams)", "std HashMap/HashSet with RandomState"],
            "fresh_process_pair": "real: two exec's of the simulator binary per pair, no warm-up of the compiler before the first compile",
            "simulated": ["thread scheduling (operation boundaries, allocation-count preemption, every clock read)", "clock (clock_gettime: stands still in the reference compile, jumps by 2 s .. 26 h while a compile is parked in one run of three)", "hash entropy (getrandom)", "process history (counter values, earlier failures, ambient mode)"],
            "python_binding": if crate::pybind::available() { "real: src/py/api.rs `compile` (pyo3 0.24, CPython 3.11 embedded in the worker) for one program in ten and for every program of one run in eight" } else { "not in this build (built with --no-default-features): those programs go through compile_clvm_text(classic_with_opts = true), which is what the binding calls" },
            "not_run": ["wasm bindings"]
        })
    }
    fn bounds(thorough: bool) -> serde_json::Value {
        serde_json::json!({
            "programs_per_run": "1..4",
            "fresh_process_pair": "one run in three; history 1..3 entries; skipped above 12 million reference allocations",
            "threads": if thorough { "1..8" } else { "1..4" },
            "ops_per_thread": "1..7",
            "preemption_points_per_op": "0..3",
            "generated_program_size": "up to ~3 KiB",
            "shipped_sources": if thorough { "all of resources/tests (*.clsp, *.clvm, *.cl)" } else { "resources/tests sources up to 2500 bytes" }
        })
    }
}

pub fn _unused(_: BTreeMap<u8, u8>) {}

/// debugging aid: time every warm-up / failing program
pub fn warmtest() {
    let extra: Vec<String> = std::env::args().skip(2).collect();
    let list: Vec<&str> = if extra.is_empty() {
        WARMUP.iter().chain(FAILERS.iter()).copied().collect()
    } else {
        extra.iter().map(|s| s.as_str()).collect()
    };
    for (i, t) in list.iter().enumerate() {
        for with_opts in [true, false] {
            let t0 = std::time::Instant::now();
            eprintln!("start {} with_opts={} {}", i, with_opts, t);
            let mut a = Allocator::new();
            let mut s = HashMap::new();
            let c = compile_text(t, "warm.clsp", &[], with_opts, &mut a, &mut s, None);
            eprintln!("  -> {} {} bytes in {:?} {}", c.class, c.bytes.len(), t0.elapsed(), hexs(&c.bytes[..c.bytes.len().min(200)]));
        }
    }
}
