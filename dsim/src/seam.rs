//! The seams: libc symbols interposed inside this binary (storage, clock, entropy), the
//! counting global allocator (preemption points) and the actor/controller handshake.
//!
//! Exactly one actor thread runs at any time.  An actor thread that reaches a mediated call
//! publishes the operation, wakes the controller and parks until the controller grants it a
//! `Decision`.  Threads that are not actors (controller, main, test-runner threads) and calls
//! made while `DEPTH > 0` (harness code running on an actor thread) pass straight through to
//! the kernel.

#![allow(clippy::missing_safety_doc)]

use crate::prng::Rng;
use libc::{c_char, c_int, c_long, c_uint, c_void, mode_t, off_t, size_t, ssize_t};
use serde::{Deserialize, Serialize};
use std::alloc::{GlobalAlloc, Layout, System};
use std::cell::{Cell, RefCell};
use std::ffi::CStr;
use std::sync::atomic::{AtomicU64, AtomicUsize, Ordering};
use std::sync::{Arc, Condvar, Mutex, OnceLock};
use std::time::Duration;

// ---------------------------------------------------------------------------------------
// operations, decisions
// ---------------------------------------------------------------------------------------

#[derive(Clone, Copy, Debug, PartialEq, Eq, Serialize, Deserialize, Hash)]
pub enum OpKind {
    Start,
    Boundary,
    Preempt,
    OpenRead,
    OpenWrite,
    Read,
    Write,
    Stat,
    Rename,
    Link,
    Unlink,
    Truncate,
    Mkdir,
    Rmdir,
    Symlink,
    Chmod,
}

#[derive(Clone, Debug)]
pub struct Op {
    pub kind: OpKind,
    pub path: String,
    pub path2: String,
    pub fd: c_int,
    pub len: usize,
    pub flags: c_int,
    /// return value and errno of this actor's previous mediated call
    pub prev_ret: i64,
    pub prev_errno: i32,
}

#[derive(Clone, Copy, Debug, PartialEq, Eq, Serialize, Deserialize)]
pub enum Action {
    Proceed,
    Fail(i32),
    Short(usize),
    CrashBefore,
    CrashAfter,
    CrashInside(usize),
}

#[derive(Clone, Copy, Debug)]
pub struct Decision {
    pub action: Action,
    /// allocations until the next preemption point (0 = none)
    pub next_preempt: u64,
}

impl Decision {
    pub fn proceed() -> Decision {
        Decision {
            action: Action::Proceed,
            next_preempt: 0,
        }
    }
}

pub enum SlotState {
    Running,
    Pending(Op),
    Granted(Decision),
    Finished,
}

pub struct Slot {
    pub state: SlotState,
    pub ghost: bool,
    /// free-form results reported by the workload glue (API return values etc.)
    pub reports: Vec<(String, String)>,
    pub ret: i64,
    pub errno: i32,
    pub allocs: u64,
}

pub struct WState {
    pub slots: Vec<Slot>,
}

pub struct World {
    pub st: Mutex<WState>,
    pub ctl_cv: Condvar,
    pub cvs: Vec<Condvar>,
    /// simulated clock, nanoseconds since the simulated epoch
    pub clock_ns: AtomicU64,
    /// stamp mtimes of mutated files from the simulated clock
    pub stamp_mtime: bool,
    /// count of calls that mutate the sandbox but were not mediated (should stay 0)
    pub unmediated: AtomicUsize,
}

pub const SIM_EPOCH_S: i64 = 1_700_000_000;

// ---------------------------------------------------------------------------------------
// process-backed actors: the same handshake through a shared memory page and futexes, for
// actors that are forked child processes (own pid, own copy of every static, real death)
// ---------------------------------------------------------------------------------------

pub const ST_RUNNING: u32 = 0;
pub const ST_PENDING: u32 = 1;
pub const ST_GRANTED: u32 = 2;
pub const ST_FINISHED: u32 = 3;

#[repr(C)]
pub struct ShmHeader {
    pub ctl_word: std::sync::atomic::AtomicU32,
    pub clock_ns: AtomicU64,
}

#[repr(C)]
pub struct ShmSlot {
    pub state: std::sync::atomic::AtomicU32,
    pub kind: u32,
    pub flags: i32,
    pub fd: i32,
    pub len: u64,
    pub prev_ret: i64,
    pub prev_errno: i32,
    pub path_len: u32,
    pub path: [u8; 512],
    pub path2_len: u32,
    pub path2: [u8; 1536],
    pub act_tag: u32,
    pub act_arg: u64,
    pub next_preempt: u64,
    pub last_ret: i64,
    pub last_errno: i32,
    pub panicked: u32,
}

pub unsafe fn futex_wait(addr: *const std::sync::atomic::AtomicU32, val: u32, timeout_ms: Option<u64>) {
    let ts;
    let tsp = match timeout_ms {
        Some(ms) => {
            ts = libc::timespec {
                tv_sec: (ms / 1000) as i64,
                tv_nsec: ((ms % 1000) * 1_000_000) as i64,
            };
            &ts as *const libc::timespec
        }
        None => std::ptr::null(),
    };
    libc::syscall(libc::SYS_futex, addr, libc::FUTEX_WAIT, val, tsp);
}

pub unsafe fn futex_wake(addr: *const std::sync::atomic::AtomicU32, n: i32) {
    libc::syscall(libc::SYS_futex, addr, libc::FUTEX_WAKE, n);
}

pub const OP_KINDS: [OpKind; 16] = [
    OpKind::Start,
    OpKind::Boundary,
    OpKind::Preempt,
    OpKind::OpenRead,
    OpKind::OpenWrite,
    OpKind::Read,
    OpKind::Write,
    OpKind::Stat,
    OpKind::Rename,
    OpKind::Link,
    OpKind::Unlink,
    OpKind::Truncate,
    OpKind::Mkdir,
    OpKind::Rmdir,
    OpKind::Symlink,
    OpKind::Chmod,
];

pub fn action_encode(a: Action) -> (u32, u64) {
    match a {
        Action::Proceed => (0, 0),
        Action::Fail(e) => (1, e as u64),
        Action::Short(n) => (2, n as u64),
        Action::CrashBefore => (3, 0),
        Action::CrashAfter => (4, 0),
        Action::CrashInside(n) => (5, n as u64),
    }
}

pub fn action_decode(tag: u32, arg: u64) -> Action {
    match tag {
        1 => Action::Fail(arg as i32),
        2 => Action::Short(arg as usize),
        3 => Action::CrashBefore,
        4 => Action::CrashAfter,
        5 => Action::CrashInside(arg as usize),
        _ => Action::Proceed,
    }
}

pub struct ProcLink {
    pub hdr: *mut ShmHeader,
    pub slot: *mut ShmSlot,
    /// what getpid() reports in this process (0 = the real pid)
    pub fake_pid: i32,
}

pub struct Actor {
    pub id: usize,
    pub world: Arc<World>,
    ghost: Cell<bool>,
    /// every read of the clock by the code under test is a scheduling point (a boundary
    /// labelled "clock"): whoever reads the time may have been stalled just before
    pub clock_yields: Cell<bool>,
    /// the simulated process's working directory, relative to the sandbox root ("" = the
    /// root itself): relative paths given to the file-system calls are resolved against it,
    /// and getcwd() reports it
    pub cwd: RefCell<String>,
    allocs: Cell<u64>,
    next_preempt: Cell<u64>,
    fds: RefCell<Vec<c_int>>,
    entropy: RefCell<Rng>,
    pub clock_skew_ns: i64,
    last_ret: Cell<i64>,
    last_errno: Cell<i32>,
    proc_link: Option<ProcLink>,
}

thread_local! {
    static CUR: Cell<*const Actor> = const { Cell::new(std::ptr::null()) };
    static DEPTH: Cell<u32> = const { Cell::new(0) };
}

static ROOT: OnceLock<String> = OnceLock::new();

/// Absolute path of the sandbox directory of this process (set once).
pub fn set_root(r: &str) {
    let _ = ROOT.set(r.to_string());
}
pub fn root() -> &'static str {
    ROOT.get().map(|s| s.as_str()).unwrap_or("/nonexistent-dsim-root")
}

pub struct HarnessGuard;
impl HarnessGuard {
    pub fn new() -> HarnessGuard {
        DEPTH.with(|d| d.set(d.get() + 1));
        HarnessGuard
    }
}
impl Drop for HarnessGuard {
    fn drop(&mut self) {
        DEPTH.with(|d| d.set(d.get() - 1));
    }
}

#[inline]
fn cur() -> Option<&'static Actor> {
    let p = CUR.try_with(|c| c.get()).unwrap_or(std::ptr::null());
    if p.is_null() {
        return None;
    }
    if DEPTH.try_with(|d| d.get()).unwrap_or(1) > 0 {
        return None;
    }
    Some(unsafe { &*p })
}

/// The actor of the current thread, regardless of harness depth.
pub fn current_actor() -> Option<&'static Actor> {
    let p = CUR.try_with(|c| c.get()).unwrap_or(std::ptr::null());
    if p.is_null() {
        None
    } else {
        Some(unsafe { &*p })
    }
}

impl Actor {
    pub fn new(id: usize, world: Arc<World>, entropy_seed: u64, clock_skew_ns: i64) -> Actor {
        Actor {
            id,
            world,
            ghost: Cell::new(false),
            clock_yields: Cell::new(false),
            cwd: RefCell::new(String::new()),
            allocs: Cell::new(0),
            next_preempt: Cell::new(u64::MAX),
            fds: RefCell::new(Vec::new()),
            entropy: RefCell::new(Rng::new(entropy_seed)),
            clock_skew_ns,
            last_ret: Cell::new(0),
            last_errno: Cell::new(0),
            proc_link: None,
        }
    }

    /// An actor that is a forked child process talking to its controller through `link`.
    pub fn new_proc(
        id: usize,
        world: Arc<World>,
        entropy_seed: u64,
        clock_skew_ns: i64,
        link: ProcLink,
    ) -> Actor {
        let mut a = Actor::new(id, world, entropy_seed, clock_skew_ns);
        a.proc_link = Some(link);
        a
    }

    pub fn fake_pid(&self) -> i32 {
        self.proc_link.as_ref().map(|l| l.fake_pid).unwrap_or(0)
    }

    fn publish_and_exit(&self, l: &ProcLink) -> ! {
        unsafe {
            let slot = &mut *l.slot;
            slot.last_ret = self.last_ret.get();
            slot.last_errno = self.last_errno.get();
            slot.state.store(ST_FINISHED, Ordering::SeqCst);
            (*l.hdr).ctl_word.fetch_add(1, Ordering::SeqCst);
            futex_wake(&(*l.hdr).ctl_word, 1);
            libc::_exit(0)
        }
    }

    fn yield_proc(&self, l: &ProcLink, op: Op) -> Decision {
        unsafe {
            let slot = &mut *l.slot;
            slot.kind = OP_KINDS.iter().position(|k| *k == op.kind).unwrap_or(0) as u32;
            slot.flags = op.flags;
            slot.fd = op.fd;
            slot.len = op.len as u64;
            slot.prev_ret = self.last_ret.get();
            slot.prev_errno = self.last_errno.get();
            let p = op.path.as_bytes();
            let n = p.len().min(slot.path.len());
            slot.path[..n].copy_from_slice(&p[..n]);
            slot.path_len = n as u32;
            let p2 = op.path2.as_bytes();
            let n2 = p2.len().min(slot.path2.len());
            slot.path2[..n2].copy_from_slice(&p2[..n2]);
            slot.path2_len = n2 as u32;
            slot.state.store(ST_PENDING, Ordering::SeqCst);
            (*l.hdr).ctl_word.fetch_add(1, Ordering::SeqCst);
            futex_wake(&(*l.hdr).ctl_word, 1);
            loop {
                let st = slot.state.load(Ordering::SeqCst);
                if st == ST_GRANTED {
                    break;
                }
                futex_wait(&slot.state, st, Some(1000));
            }
            let d = Decision {
                action: action_decode(slot.act_tag, slot.act_arg),
                next_preempt: slot.next_preempt,
            };
            // the simulated clock is the controller's
            self.world
                .clock_ns
                .store((*l.hdr).clock_ns.load(Ordering::SeqCst), Ordering::SeqCst);
            slot.state.store(ST_RUNNING, Ordering::SeqCst);
            d
        }
    }

    /// Install as this thread's actor.  The reference must outlive the thread's use of it.
    pub unsafe fn install(&self) {
        CUR.with(|c| c.set(self as *const Actor));
    }
    pub fn uninstall() {
        CUR.with(|c| c.set(std::ptr::null()));
    }

    pub fn is_ghost(&self) -> bool {
        self.ghost.get()
    }
    pub fn alloc_count(&self) -> u64 {
        self.allocs.get()
    }

    fn owns_fd(&self, fd: c_int) -> bool {
        self.fds.borrow().contains(&fd)
    }

    /// backed by a child process of its own (as opposed to a thread of the worker)
    pub fn is_proc(&self) -> bool {
        self.proc_link.is_some()
    }

    /// Publish `op`, wake the controller, park until granted.
    pub fn yield_op(&self, op: Op) -> Decision {
        let _g = HarnessGuard::new();
        if let Some(l) = &self.proc_link {
            return self.yield_proc(l, op);
        }
        // whatever process-wide lock of a foreign runtime this thread holds (the Python
        // GIL) is handed back while it is parked
        let tok = park_before();
        let d = self.yield_thread(op);
        park_after(tok);
        d
    }

    fn yield_thread(&self, mut op: Op) -> Decision {
        op.prev_ret = self.last_ret.get();
        op.prev_errno = self.last_errno.get();
        let w = &self.world;
        let mut st = w.st.lock().unwrap();
        st.slots[self.id].allocs = self.allocs.get();
        st.slots[self.id].state = SlotState::Pending(op);
        w.ctl_cv.notify_one();
        loop {
            if let SlotState::Granted(d) = &st.slots[self.id].state {
                let d = *d;
                st.slots[self.id].state = SlotState::Running;
                drop(st);
                if d.next_preempt > 0 {
                    self.next_preempt.set(self.allocs.get() + d.next_preempt);
                }
                return d;
            }
            st = w.cvs[self.id].wait(st).unwrap();
        }
    }

    pub fn boundary(&self, label: &str, info: &str) -> Decision {
        if self.ghost.get() {
            return Decision::proceed();
        }
        let d = self.yield_op(Op {
            kind: OpKind::Boundary,
            path: label.to_string(),
            path2: info.to_string(),
            fd: -1,
            len: 0,
            flags: 0,
            prev_ret: 0,
            prev_errno: 0,
        });
        if matches!(
            d.action,
            Action::CrashBefore | Action::CrashAfter | Action::CrashInside(_)
        ) {
            self.die();
        }
        d
    }

    pub fn report(&self, key: &str, val: &str) {
        let _g = HarnessGuard::new();
        let mut st = self.world.st.lock().unwrap();
        st.slots[self.id].reports.push((key.to_string(), val.to_string()));
    }

    fn die(&self) {
        if let Some(l) = &self.proc_link {
            // a real process death: nothing after this point runs, the kernel closes the
            // descriptors, destructors (e.g. the temp file's unlink) never happen
            self.publish_and_exit(l);
        }
        self.ghost.set(true);
        let _g = HarnessGuard::new();
        let mut st = self.world.st.lock().unwrap();
        st.slots[self.id].ghost = true;
    }

    pub fn finish(&self) {
        let _g = HarnessGuard::new();
        if let Some(l) = &self.proc_link {
            self.publish_and_exit(l);
        }
        // close whatever the (possibly dead) actor left open
        for fd in self.fds.borrow_mut().drain(..) {
            unsafe { libc::syscall(libc::SYS_close, fd) };
        }
        let w = &self.world;
        let mut st = w.st.lock().unwrap();
        st.slots[self.id].allocs = self.allocs.get();
        st.slots[self.id].ret = self.last_ret.get();
        st.slots[self.id].errno = self.last_errno.get();
        st.slots[self.id].state = SlotState::Finished;
        w.ctl_cv.notify_one();
    }

    fn set_result(&self, r: i64) {
        self.last_ret.set(r);
        self.last_errno.set(if r < 0 { errno() } else { 0 });
    }
}

// ---------------------------------------------------------------------------------------
// controller side
// ---------------------------------------------------------------------------------------

pub fn new_world(n_actors: usize, stamp_mtime: bool, clock_start_ns: u64) -> Arc<World> {
    let mut slots = Vec::new();
    let mut cvs = Vec::new();
    for _ in 0..n_actors {
        slots.push(Slot {
            state: SlotState::Running,
            ghost: false,
            reports: vec![],
            ret: 0,
            errno: 0,
            allocs: 0,
        });
        cvs.push(Condvar::new());
    }
    Arc::new(World {
        st: Mutex::new(WState { slots }),
        ctl_cv: Condvar::new(),
        cvs,
        clock_ns: AtomicU64::new(clock_start_ns),
        stamp_mtime,
        unmediated: AtomicUsize::new(0),
    })
}

#[derive(Debug)]
pub struct Watchdog;

impl World {
    /// Wait until no actor is in state Running/Granted (all parked or finished).
    pub fn wait_quiescent(&self, timeout: Duration) -> Result<(), Watchdog> {
        let mut st = self.st.lock().unwrap();
        let deadline = std::time::Instant::now() + timeout;
        loop {
            let busy = st
                .slots
                .iter()
                .any(|s| matches!(s.state, SlotState::Running | SlotState::Granted(_)));
            if !busy {
                return Ok(());
            }
            let now = std::time::Instant::now();
            if now >= deadline {
                return Err(Watchdog);
            }
            let (g, _) = self.ctl_cv.wait_timeout(st, deadline - now).unwrap();
            st = g;
        }
    }

    pub fn grant(&self, id: usize, d: Decision) {
        let mut st = self.st.lock().unwrap();
        st.slots[id].state = SlotState::Granted(d);
        self.cvs[id].notify_one();
    }

    pub fn pending(&self) -> Vec<(usize, Op)> {
        let st = self.st.lock().unwrap();
        st.slots
            .iter()
            .enumerate()
            .filter_map(|(i, s)| match &s.state {
                SlotState::Pending(op) => Some((i, op.clone())),
                _ => None,
            })
            .collect()
    }

    pub fn now_ns(&self) -> u64 {
        self.clock_ns.load(Ordering::SeqCst)
    }
    pub fn advance_clock(&self, delta_ns: u64) {
        self.clock_ns.fetch_add(delta_ns, Ordering::SeqCst);
    }
}

// ---------------------------------------------------------------------------------------
// allocator seam
// ---------------------------------------------------------------------------------------

pub struct CountingAlloc;

#[inline]
fn alloc_hook() {
    if let Some(a) = cur() {
        let n = a.allocs.get() + 1;
        a.allocs.set(n);
        if n >= a.next_preempt.get() && !a.ghost.get() {
            a.next_preempt.set(u64::MAX);
            let d = a.yield_op(Op {
                kind: OpKind::Preempt,
                path: String::new(),
                path2: String::new(),
                fd: -1,
                len: n as usize,
                flags: 0,
                prev_ret: 0,
                prev_errno: 0,
            });
            if matches!(
                d.action,
                Action::CrashBefore | Action::CrashAfter | Action::CrashInside(_)
            ) {
                a.die();
            }
        }
    }
}

unsafe impl GlobalAlloc for CountingAlloc {
    unsafe fn alloc(&self, l: Layout) -> *mut u8 {
        let p = System.alloc(l);
        alloc_hook();
        p
    }
    unsafe fn dealloc(&self, p: *mut u8, l: Layout) {
        System.dealloc(p, l)
    }
    unsafe fn alloc_zeroed(&self, l: Layout) -> *mut u8 {
        let p = System.alloc_zeroed(l);
        alloc_hook();
        p
    }
    unsafe fn realloc(&self, p: *mut u8, l: Layout, n: usize) -> *mut u8 {
        System.realloc(p, l, n)
    }
}

// ---------------------------------------------------------------------------------------
// libc helpers
// ---------------------------------------------------------------------------------------

#[inline]
fn errno() -> i32 {
    unsafe { *libc::__errno_location() }
}
#[inline]
fn set_errno(e: i32) {
    unsafe { *libc::__errno_location() = e }
}

unsafe fn cstr(p: *const c_char) -> String {
    if p.is_null() {
        return String::new();
    }
    CStr::from_ptr(p).to_string_lossy().into_owned()
}

fn in_sandbox(p: &str) -> bool {
    if p.starts_with('/') {
        let r = root();
        p.starts_with(r) && (p.len() == r.len() || p.as_bytes()[r.len()] == b'/')
    } else {
        true
    }
}

/// Path shown to the controller: relative to the sandbox root.
fn rel(p: &str) -> String {
    let t: &str = if p.starts_with('/') {
        let r = root();
        p[r.len().min(p.len())..].trim_start_matches('/')
    } else {
        p
    };
    // lexical normalisation: "./x", "a/./x", "a/../x" (the sandbox has no symlinked
    // directories except the aliases the policies know about)
    let mut out: Vec<&str> = Vec::new();
    for c in t.split('/') {
        match c {
            "" | "." => {}
            ".." => {
                // "a/.." is only "" if `a` is a real directory; through a symlinked
                // directory it is the parent of the link's target, so keep it spelled out
                let collapsible = out.last().map(|l| *l != "..").unwrap_or(false) && {
                    let prefix = out.join("/");
                    match std::ffi::CString::new(prefix) {
                        Ok(c) => unsafe {
                            let mut st: libc::stat = std::mem::zeroed();
                            let r = libc::syscall(
                                libc::SYS_newfstatat,
                                libc::AT_FDCWD,
                                c.as_ptr(),
                                &mut st as *mut libc::stat,
                                libc::AT_SYMLINK_NOFOLLOW,
                            );
                            r == 0 && (st.st_mode & libc::S_IFMT) != libc::S_IFLNK
                        },
                        Err(_) => false,
                    }
                };
                if collapsible {
                    out.pop();
                } else {
                    out.push("..");
                }
            }
            c => out.push(c),
        }
    }
    // alias used by C19: the run directory reached through a symlinked directory
    if out.first() == Some(&"r_link") {
        out[0] = "r";
    }
    out.join("/")
}

fn mkop(kind: OpKind, path: String, path2: String, fd: c_int, len: usize, flags: c_int) -> Op {
    Op {
        kind,
        path,
        path2,
        fd,
        len,
        flags,
        prev_ret: 0,
        prev_errno: 0,
    }
}

unsafe fn stamp_fd(a: &Actor, fd: c_int) {
    if !a.world.stamp_mtime {
        return;
    }
    let ns = a.world.now_ns();
    let ts = [
        libc::timespec {
            tv_sec: SIM_EPOCH_S + (ns / 1_000_000_000) as i64,
            tv_nsec: (ns % 1_000_000_000) as i64,
        },
        libc::timespec {
            tv_sec: SIM_EPOCH_S + (ns / 1_000_000_000) as i64,
            tv_nsec: (ns % 1_000_000_000) as i64,
        },
    ];
    libc::syscall(
        libc::SYS_utimensat,
        fd,
        std::ptr::null::<c_char>(),
        ts.as_ptr(),
        0,
    );
}

/// Run a mediated call.  `real` performs the call (possibly shortened to `n` bytes).
/// Handles ghosting, failure injection and crash placement uniformly.
static PARK_BEFORE: AtomicUsize = AtomicUsize::new(0);
static PARK_AFTER: AtomicUsize = AtomicUsize::new(0);

/// Called around every park of a thread-backed actor: `before` returns a token that is given
/// to `after` once the actor runs again.  Neither may allocate through the Rust allocator.
pub fn set_park_hooks(before: fn() -> usize, after: fn(usize)) {
    PARK_BEFORE.store(before as usize, Ordering::SeqCst);
    PARK_AFTER.store(after as usize, Ordering::SeqCst);
}

fn park_before() -> usize {
    let f = PARK_BEFORE.load(Ordering::Relaxed);
    if f == 0 {
        0
    } else {
        let f: fn() -> usize = unsafe { std::mem::transmute(f) };
        f()
    }
}

fn park_after(tok: usize) {
    let f = PARK_AFTER.load(Ordering::Relaxed);
    if f != 0 && tok != 0 {
        let f: fn(usize) = unsafe { std::mem::transmute(f) };
        f(tok)
    }
}

unsafe fn mediated<F: FnMut(Option<usize>) -> i64>(a: &Actor, op: Op, mut real: F) -> i64 {
    if a.ghost.get() {
        set_errno(libc::EIO);
        return -1;
    }
    let d = a.yield_op(op);
    let r = match d.action {
        Action::Proceed => real(None),
        Action::Fail(e) => {
            set_errno(e);
            -1
        }
        Action::Short(n) => real(Some(n)),
        Action::CrashBefore => {
            a.last_ret.set(-1);
            a.last_errno.set(libc::EIO);
            a.die();
            set_errno(libc::EIO);
            -1
        }
        Action::CrashAfter => {
            let r = real(None);
            a.set_result(r);
            a.die();
            set_errno(libc::EIO);
            return -1;
        }
        Action::CrashInside(n) => {
            let r = real(Some(n));
            a.set_result(r);
            a.die();
            set_errno(libc::EIO);
            return -1;
        }
    };
    a.set_result(r);
    r
}

macro_rules! sys {
    ($nr:expr $(, $a:expr)*) => { libc::syscall($nr $(, $a)*) as i64 };
}

// ---------------------------------------------------------------------------------------
// per-actor working directory
// ---------------------------------------------------------------------------------------

/// The path to hand to the kernel when the calling actor has a working directory of its own
/// and `p` is relative to the (process-wide, real) current directory.
unsafe fn virt(dirfd: c_int, p: *const c_char) -> Option<std::ffi::CString> {
    if dirfd != libc::AT_FDCWD || p.is_null() {
        return None;
    }
    let a = cur()?;
    let _g = HarnessGuard::new();
    let pre = a.cwd.borrow();
    if pre.is_empty() {
        return None;
    }
    let s = std::ffi::CStr::from_ptr(p).to_bytes();
    if s.first() == Some(&b'/') {
        return None;
    }
    let mut v = Vec::with_capacity(pre.len() + 1 + s.len());
    v.extend_from_slice(pre.as_bytes());
    v.push(b'/');
    v.extend_from_slice(s);
    std::ffi::CString::new(v).ok()
}

macro_rules! virt_path {
    ($d:expr, $p:ident) => {
        let __hold = virt($d, $p);
        let $p: *const c_char = match &__hold {
            Some(c) => c.as_ptr(),
            None => $p,
        };
    };
}

#[no_mangle]
pub unsafe extern "C" fn getcwd(buf: *mut c_char, size: size_t) -> *mut c_char {
    if let Some(a) = cur() {
        let _g = HarnessGuard::new();
        let pre = a.cwd.borrow();
        if !pre.is_empty() && !buf.is_null() {
            let full = format!("{}/{}", root(), pre);
            if full.len() + 1 > size {
                *libc::__errno_location() = libc::ERANGE;
                return std::ptr::null_mut();
            }
            std::ptr::copy_nonoverlapping(full.as_ptr() as *const c_char, buf, full.len());
            *buf.add(full.len()) = 0;
            return buf;
        }
    }
    let r = sys!(libc::SYS_getcwd, buf, size);
    if r < 0 {
        std::ptr::null_mut()
    } else {
        buf
    }
}

// ---------------------------------------------------------------------------------------
// storage: open family
// ---------------------------------------------------------------------------------------

unsafe fn do_open(dirfd: c_int, path: *const c_char, flags: c_int, mode: mode_t) -> c_int {
    virt_path!(dirfd, path);
    let raw = |p: *const c_char| sys!(libc::SYS_openat, dirfd, p, flags, mode as c_uint);
    let a = match cur() {
        Some(a) => a,
        None => return raw(path) as c_int,
    };
    let p = cstr(path);
    if !(dirfd == libc::AT_FDCWD || p.starts_with('/')) || !in_sandbox(&p) {
        return raw(path) as c_int;
    }
    let acc = flags & libc::O_ACCMODE;
    let writes = acc != libc::O_RDONLY
        || flags & (libc::O_CREAT | libc::O_TRUNC | libc::O_TMPFILE) != 0;
    let kind = if writes {
        OpKind::OpenWrite
    } else {
        OpKind::OpenRead
    };
    let op = mkop(kind, rel(&p), String::new(), -1, 0, flags);
    let r = mediated(a, op, |_| {
        let fd = raw(path);
        if fd >= 0 {
            let _g = HarnessGuard::new();
            a.fds.borrow_mut().push(fd as c_int);
            if flags & (libc::O_CREAT | libc::O_TRUNC) != 0 {
                stamp_fd(a, fd as c_int);
            }
        }
        fd
    });
    r as c_int
}

#[no_mangle]
pub unsafe extern "C" fn open64(path: *const c_char, flags: c_int, mode: mode_t) -> c_int {
    do_open(libc::AT_FDCWD, path, flags | libc::O_LARGEFILE, mode)
}
#[no_mangle]
pub unsafe extern "C" fn open(path: *const c_char, flags: c_int, mode: mode_t) -> c_int {
    do_open(libc::AT_FDCWD, path, flags, mode)
}
#[no_mangle]
pub unsafe extern "C" fn openat(d: c_int, path: *const c_char, flags: c_int, mode: mode_t) -> c_int {
    do_open(d, path, flags, mode)
}
#[no_mangle]
pub unsafe extern "C" fn openat64(
    d: c_int,
    path: *const c_char,
    flags: c_int,
    mode: mode_t,
) -> c_int {
    do_open(d, path, flags | libc::O_LARGEFILE, mode)
}
#[no_mangle]
pub unsafe extern "C" fn creat(path: *const c_char, mode: mode_t) -> c_int {
    do_open(
        libc::AT_FDCWD,
        path,
        libc::O_CREAT | libc::O_WRONLY | libc::O_TRUNC,
        mode,
    )
}
#[no_mangle]
pub unsafe extern "C" fn creat64(path: *const c_char, mode: mode_t) -> c_int {
    creat(path, mode)
}

#[no_mangle]
pub unsafe extern "C" fn close(fd: c_int) -> c_int {
    if let Some(a) = cur() {
        let _g = HarnessGuard::new();
        let mut fds = a.fds.borrow_mut();
        if let Some(i) = fds.iter().position(|x| *x == fd) {
            fds.swap_remove(i);
        }
    }
    sys!(libc::SYS_close, fd) as c_int
}

// ---------------------------------------------------------------------------------------
// storage: data transfer
// ---------------------------------------------------------------------------------------

#[no_mangle]
pub unsafe extern "C" fn read(fd: c_int, buf: *mut c_void, n: size_t) -> ssize_t {
    let a = match cur() {
        Some(a) if a.owns_fd(fd) => a,
        _ => return sys!(libc::SYS_read, fd, buf, n) as ssize_t,
    };
    let op = mkop(OpKind::Read, String::new(), String::new(), fd, n, 0);
    mediated(a, op, |k| sys!(libc::SYS_read, fd, buf, k.unwrap_or(n).min(n))) as ssize_t
}

#[no_mangle]
pub unsafe extern "C" fn pread64(fd: c_int, buf: *mut c_void, n: size_t, off: off_t) -> ssize_t {
    let a = match cur() {
        Some(a) if a.owns_fd(fd) => a,
        _ => return sys!(libc::SYS_pread64, fd, buf, n, off) as ssize_t,
    };
    let op = mkop(OpKind::Read, String::new(), String::new(), fd, n, 0);
    mediated(a, op, |k| {
        sys!(libc::SYS_pread64, fd, buf, k.unwrap_or(n).min(n), off)
    }) as ssize_t
}
#[no_mangle]
pub unsafe extern "C" fn pread(fd: c_int, buf: *mut c_void, n: size_t, off: off_t) -> ssize_t {
    pread64(fd, buf, n, off)
}

#[no_mangle]
pub unsafe extern "C" fn readv(fd: c_int, iov: *const libc::iovec, cnt: c_int) -> ssize_t {
    let a = match cur() {
        Some(a) if a.owns_fd(fd) => a,
        _ => return sys!(libc::SYS_readv, fd, iov, cnt) as ssize_t,
    };
    let total: usize = (0..cnt as usize).map(|i| (*iov.add(i)).iov_len).sum();
    let op = mkop(OpKind::Read, String::new(), String::new(), fd, total, 0);
    mediated(a, op, |k| match k {
        None => sys!(libc::SYS_readv, fd, iov, cnt),
        Some(k) => {
            // shortened: serve from the first buffer only
            let first = *iov;
            sys!(libc::SYS_read, fd, first.iov_base, k.min(first.iov_len))
        }
    }) as ssize_t
}

#[no_mangle]
pub unsafe extern "C" fn write(fd: c_int, buf: *const c_void, n: size_t) -> ssize_t {
    let a = match cur() {
        Some(a) if a.owns_fd(fd) => a,
        _ => return sys!(libc::SYS_write, fd, buf, n) as ssize_t,
    };
    let op = mkop(OpKind::Write, String::new(), String::new(), fd, n, 0);
    mediated(a, op, |k| {
        let r = sys!(libc::SYS_write, fd, buf, k.unwrap_or(n).min(n));
        stamp_fd(a, fd);
        r
    }) as ssize_t
}

#[no_mangle]
pub unsafe extern "C" fn pwrite64(fd: c_int, buf: *const c_void, n: size_t, off: off_t) -> ssize_t {
    let a = match cur() {
        Some(a) if a.owns_fd(fd) => a,
        _ => return sys!(libc::SYS_pwrite64, fd, buf, n, off) as ssize_t,
    };
    let op = mkop(OpKind::Write, String::new(), String::new(), fd, n, 0);
    mediated(a, op, |k| {
        let r = sys!(libc::SYS_pwrite64, fd, buf, k.unwrap_or(n).min(n), off);
        stamp_fd(a, fd);
        r
    }) as ssize_t
}
#[no_mangle]
pub unsafe extern "C" fn pwrite(fd: c_int, buf: *const c_void, n: size_t, off: off_t) -> ssize_t {
    pwrite64(fd, buf, n, off)
}

#[no_mangle]
pub unsafe extern "C" fn writev(fd: c_int, iov: *const libc::iovec, cnt: c_int) -> ssize_t {
    let a = match cur() {
        Some(a) if a.owns_fd(fd) => a,
        _ => return sys!(libc::SYS_writev, fd, iov, cnt) as ssize_t,
    };
    let total: usize = (0..cnt as usize).map(|i| (*iov.add(i)).iov_len).sum();
    let op = mkop(OpKind::Write, String::new(), String::new(), fd, total, 0);
    mediated(a, op, |k| {
        let r = match k {
            None => sys!(libc::SYS_writev, fd, iov, cnt),
            Some(k) => {
                let first = *iov;
                sys!(libc::SYS_write, fd, first.iov_base, k.min(first.iov_len))
            }
        };
        stamp_fd(a, fd);
        r
    }) as ssize_t
}

#[no_mangle]
pub unsafe extern "C" fn copy_file_range(
    fd_in: c_int,
    off_in: *mut libc::off64_t,
    fd_out: c_int,
    off_out: *mut libc::off64_t,
    len: size_t,
    flags: c_uint,
) -> ssize_t {
    let a = match cur() {
        Some(a) if a.owns_fd(fd_out) => a,
        _ => {
            return sys!(libc::SYS_copy_file_range, fd_in, off_in, fd_out, off_out, len, flags)
                as ssize_t
        }
    };
    // real length is bounded by the source size; report that to the controller
    let mut stx: libc::stat = std::mem::zeroed();
    let have = if sys!(libc::SYS_fstat, fd_in, &mut stx as *mut libc::stat) == 0 {
        (stx.st_size as usize).min(len)
    } else {
        len
    };
    let op = mkop(OpKind::Write, String::new(), String::new(), fd_out, have, 1);
    mediated(a, op, |k| {
        let r = sys!(
            libc::SYS_copy_file_range,
            fd_in,
            off_in,
            fd_out,
            off_out,
            k.unwrap_or(len).min(len),
            flags
        );
        stamp_fd(a, fd_out);
        r
    }) as ssize_t
}

#[no_mangle]
pub unsafe extern "C" fn sendfile64(
    fd_out: c_int,
    fd_in: c_int,
    off: *mut libc::off64_t,
    len: size_t,
) -> ssize_t {
    let a = match cur() {
        Some(a) if a.owns_fd(fd_out) => a,
        _ => return sys!(libc::SYS_sendfile, fd_out, fd_in, off, len) as ssize_t,
    };
    let mut stx: libc::stat = std::mem::zeroed();
    let have = if sys!(libc::SYS_fstat, fd_in, &mut stx as *mut libc::stat) == 0 {
        (stx.st_size as usize).min(len)
    } else {
        len
    };
    let op = mkop(OpKind::Write, String::new(), String::new(), fd_out, have, 2);
    mediated(a, op, |k| {
        let r = sys!(libc::SYS_sendfile, fd_out, fd_in, off, k.unwrap_or(len).min(len));
        stamp_fd(a, fd_out);
        r
    }) as ssize_t
}
#[no_mangle]
pub unsafe extern "C" fn sendfile(
    fd_out: c_int,
    fd_in: c_int,
    off: *mut libc::off64_t,
    len: size_t,
) -> ssize_t {
    sendfile64(fd_out, fd_in, off, len)
}

#[no_mangle]
pub unsafe extern "C" fn ftruncate64(fd: c_int, len: off_t) -> c_int {
    let a = match cur() {
        Some(a) if a.owns_fd(fd) => a,
        _ => return sys!(libc::SYS_ftruncate, fd, len) as c_int,
    };
    let op = mkop(OpKind::Truncate, String::new(), String::new(), fd, len as usize, 0);
    mediated(a, op, |_| {
        let r = sys!(libc::SYS_ftruncate, fd, len);
        stamp_fd(a, fd);
        r
    }) as c_int
}
#[no_mangle]
pub unsafe extern "C" fn ftruncate(fd: c_int, len: off_t) -> c_int {
    ftruncate64(fd, len)
}

unsafe fn path_call1(
    kind: OpKind,
    dirfd: c_int,
    path: *const c_char,
    len: usize,
    flags: c_int,
    real: &mut dyn FnMut() -> i64,
) -> i64 {
    let a = match cur() {
        Some(a) => a,
        None => return real(),
    };
    let p = cstr(path);
    if !(dirfd == libc::AT_FDCWD || p.starts_with('/')) || !in_sandbox(&p) {
        return real();
    }
    let op = mkop(kind, rel(&p), String::new(), -1, len, flags);
    mediated(a, op, |_| real())
}

unsafe fn path_call2(
    kind: OpKind,
    d1: c_int,
    p1: *const c_char,
    d2: c_int,
    p2: *const c_char,
    flags: c_int,
    real: &mut dyn FnMut() -> i64,
) -> i64 {
    let a = match cur() {
        Some(a) => a,
        None => return real(),
    };
    let s1 = cstr(p1);
    let s2 = cstr(p2);
    let ok1 = (d1 == libc::AT_FDCWD || s1.starts_with('/')) && in_sandbox(&s1);
    let ok2 = (d2 == libc::AT_FDCWD || s2.starts_with('/')) && in_sandbox(&s2);
    if !ok2 && !ok1 {
        return real();
    }
    let op = mkop(kind, rel(&s1), rel(&s2), -1, 0, flags);
    mediated(a, op, |_| real())
}

#[no_mangle]
pub unsafe extern "C" fn truncate64(path: *const c_char, len: off_t) -> c_int {
    virt_path!(libc::AT_FDCWD, path);
    path_call1(OpKind::Truncate, libc::AT_FDCWD, path, len as usize, 0, &mut || {
        sys!(libc::SYS_truncate, path, len)
    }) as c_int
}
#[no_mangle]
pub unsafe extern "C" fn truncate(path: *const c_char, len: off_t) -> c_int {
    truncate64(path, len)
}

#[no_mangle]
pub unsafe extern "C" fn rename(old: *const c_char, new: *const c_char) -> c_int {
    renameat2(libc::AT_FDCWD, old, libc::AT_FDCWD, new, 0)
}
#[no_mangle]
pub unsafe extern "C" fn renameat(
    d1: c_int,
    old: *const c_char,
    d2: c_int,
    new: *const c_char,
) -> c_int {
    renameat2(d1, old, d2, new, 0)
}
#[no_mangle]
pub unsafe extern "C" fn renameat2(
    d1: c_int,
    old: *const c_char,
    d2: c_int,
    new: *const c_char,
    flags: c_uint,
) -> c_int {
    virt_path!(d1, old);
    virt_path!(d2, new);
    path_call2(OpKind::Rename, d1, old, d2, new, flags as c_int, &mut || {
        sys!(libc::SYS_renameat2, d1, old, d2, new, flags)
    }) as c_int
}

#[no_mangle]
pub unsafe extern "C" fn link(old: *const c_char, new: *const c_char) -> c_int {
    linkat(libc::AT_FDCWD, old, libc::AT_FDCWD, new, 0)
}
#[no_mangle]
pub unsafe extern "C" fn linkat(
    d1: c_int,
    old: *const c_char,
    d2: c_int,
    new: *const c_char,
    flags: c_int,
) -> c_int {
    virt_path!(d1, old);
    virt_path!(d2, new);
    path_call2(OpKind::Link, d1, old, d2, new, flags, &mut || {
        sys!(libc::SYS_linkat, d1, old, d2, new, flags)
    }) as c_int
}

#[no_mangle]
pub unsafe extern "C" fn unlink(path: *const c_char) -> c_int {
    unlinkat(libc::AT_FDCWD, path, 0)
}
#[no_mangle]
pub unsafe extern "C" fn unlinkat(d: c_int, path: *const c_char, flags: c_int) -> c_int {
    virt_path!(d, path);
    let kind = if flags & libc::AT_REMOVEDIR != 0 {
        OpKind::Rmdir
    } else {
        OpKind::Unlink
    };
    path_call1(kind, d, path, 0, flags, &mut || {
        sys!(libc::SYS_unlinkat, d, path, flags)
    }) as c_int
}
#[no_mangle]
pub unsafe extern "C" fn rmdir(path: *const c_char) -> c_int {
    unlinkat(libc::AT_FDCWD, path, libc::AT_REMOVEDIR)
}
#[no_mangle]
pub unsafe extern "C" fn mkdir(path: *const c_char, mode: mode_t) -> c_int {
    mkdirat(libc::AT_FDCWD, path, mode)
}
#[no_mangle]
pub unsafe extern "C" fn mkdirat(d: c_int, path: *const c_char, mode: mode_t) -> c_int {
    virt_path!(d, path);
    path_call1(OpKind::Mkdir, d, path, 0, 0, &mut || {
        sys!(libc::SYS_mkdirat, d, path, mode as c_uint)
    }) as c_int
}
#[no_mangle]
pub unsafe extern "C" fn symlink(target: *const c_char, linkpath: *const c_char) -> c_int {
    symlinkat(target, libc::AT_FDCWD, linkpath)
}
#[no_mangle]
pub unsafe extern "C" fn symlinkat(
    target: *const c_char,
    d: c_int,
    linkpath: *const c_char,
) -> c_int {
    virt_path!(d, linkpath);
    path_call1(OpKind::Symlink, d, linkpath, 0, 0, &mut || {
        sys!(libc::SYS_symlinkat, target, d, linkpath)
    }) as c_int
}
#[no_mangle]
pub unsafe extern "C" fn chmod(path: *const c_char, mode: mode_t) -> c_int {
    virt_path!(libc::AT_FDCWD, path);
    path_call1(OpKind::Chmod, libc::AT_FDCWD, path, 0, mode as c_int, &mut || {
        sys!(libc::SYS_fchmodat, libc::AT_FDCWD, path, mode as c_uint)
    }) as c_int
}
#[no_mangle]
pub unsafe extern "C" fn fchmodat(d: c_int, path: *const c_char, mode: mode_t, fl: c_int) -> c_int {
    virt_path!(d, path);
    let _ = fl;
    path_call1(OpKind::Chmod, d, path, 0, mode as c_int, &mut || {
        sys!(libc::SYS_fchmodat, d, path, mode as c_uint)
    }) as c_int
}
#[no_mangle]
pub unsafe extern "C" fn fchmod(fd: c_int, mode: mode_t) -> c_int {
    // no durable content change; not a yield point
    sys!(libc::SYS_fchmod, fd, mode as c_uint) as c_int
}

#[no_mangle]
pub unsafe extern "C" fn fsync(fd: c_int) -> c_int {
    sys!(libc::SYS_fsync, fd) as c_int
}
#[no_mangle]
pub unsafe extern "C" fn fdatasync(fd: c_int) -> c_int {
    sys!(libc::SYS_fdatasync, fd) as c_int
}

// ---------------------------------------------------------------------------------------
// storage: metadata
// ---------------------------------------------------------------------------------------

#[no_mangle]
pub unsafe extern "C" fn statx(
    dirfd: c_int,
    path: *const c_char,
    flags: c_int,
    mask: c_uint,
    buf: *mut libc::statx,
) -> c_int {
    virt_path!(dirfd, path);
    let raw = || sys!(libc::SYS_statx, dirfd, path, flags, mask, buf);
    let a = match cur() {
        Some(a) => a,
        None => return raw() as c_int,
    };
    let p = cstr(path);
    if p.is_empty() {
        // fd based (AT_EMPTY_PATH): observes only the actor's own open file; no yield
        return raw() as c_int;
    }
    if !(dirfd == libc::AT_FDCWD || p.starts_with('/')) || !in_sandbox(&p) {
        return raw() as c_int;
    }
    let op = mkop(OpKind::Stat, rel(&p), String::new(), -1, 0, flags);
    mediated(a, op, |_| raw()) as c_int
}

unsafe fn stat_common(
    dirfd: c_int,
    path: *const c_char,
    buf: *mut libc::stat,
    flags: c_int,
) -> c_int {
    virt_path!(dirfd, path);
    path_call1(OpKind::Stat, dirfd, path, 0, flags, &mut || {
        sys!(libc::SYS_newfstatat, dirfd, path, buf, flags)
    }) as c_int
}
#[no_mangle]
pub unsafe extern "C" fn stat(path: *const c_char, buf: *mut libc::stat) -> c_int {
    stat_common(libc::AT_FDCWD, path, buf, 0)
}
#[no_mangle]
pub unsafe extern "C" fn stat64(path: *const c_char, buf: *mut libc::stat) -> c_int {
    stat_common(libc::AT_FDCWD, path, buf, 0)
}
#[no_mangle]
pub unsafe extern "C" fn lstat(path: *const c_char, buf: *mut libc::stat) -> c_int {
    stat_common(libc::AT_FDCWD, path, buf, libc::AT_SYMLINK_NOFOLLOW)
}
#[no_mangle]
pub unsafe extern "C" fn lstat64(path: *const c_char, buf: *mut libc::stat) -> c_int {
    stat_common(libc::AT_FDCWD, path, buf, libc::AT_SYMLINK_NOFOLLOW)
}
#[no_mangle]
pub unsafe extern "C" fn fstatat(
    d: c_int,
    path: *const c_char,
    buf: *mut libc::stat,
    flags: c_int,
) -> c_int {
    stat_common(d, path, buf, flags)
}
#[no_mangle]
pub unsafe extern "C" fn fstatat64(
    d: c_int,
    path: *const c_char,
    buf: *mut libc::stat,
    flags: c_int,
) -> c_int {
    stat_common(d, path, buf, flags)
}

// ---------------------------------------------------------------------------------------
// clock and entropy
// ---------------------------------------------------------------------------------------

#[no_mangle]
pub unsafe extern "C" fn clock_gettime(clk: libc::clockid_t, ts: *mut libc::timespec) -> c_int {
    if let Some(a) = cur() {
        if a.clock_yields.get() {
            a.boundary("clock", "");
        }
        let ns = a.world.now_ns() as i64 + a.clock_skew_ns;
        let ns = ns.max(0);
        let base = if clk == libc::CLOCK_REALTIME || clk == libc::CLOCK_REALTIME_COARSE {
            SIM_EPOCH_S
        } else {
            1000
        };
        (*ts).tv_sec = base + ns / 1_000_000_000;
        (*ts).tv_nsec = ns % 1_000_000_000;
        return 0;
    }
    // non-actor threads: the real (vDSO backed) implementation
    type F = unsafe extern "C" fn(libc::clockid_t, *mut libc::timespec) -> c_int;
    static REAL: AtomicUsize = AtomicUsize::new(0);
    let mut f = REAL.load(Ordering::Relaxed);
    if f == 0 {
        f = libc::dlsym(libc::RTLD_NEXT, b"clock_gettime\0".as_ptr() as *const c_char) as usize;
        if f == 0 {
            return sys!(libc::SYS_clock_gettime, clk as c_long, ts) as c_int;
        }
        REAL.store(f, Ordering::Relaxed);
    }
    let f: F = std::mem::transmute(f);
    f(clk, ts)
}

#[no_mangle]
pub unsafe extern "C" fn getpid() -> libc::pid_t {
    if let Some(a) = cur() {
        let f = a.fake_pid();
        if f != 0 {
            return f;
        }
    }
    sys!(libc::SYS_getpid) as libc::pid_t
}

#[no_mangle]
pub unsafe extern "C" fn getrandom(buf: *mut c_void, len: size_t, flags: c_uint) -> ssize_t {
    if let Some(a) = cur() {
        let s = std::slice::from_raw_parts_mut(buf as *mut u8, len);
        a.entropy.borrow_mut().fill(s);
        return len as ssize_t;
    }
    sys!(libc::SYS_getrandom, buf, len, flags) as ssize_t
}
