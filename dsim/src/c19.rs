//! C19 — the compiled output file is replaced atomically.
//!
//! Writers (simulated processes) run the real `util::atomic_write_file`,
//! `util::gentle_overwrite`, `clvmc::compile_clvm` or the Python entry point re-enacted
//! call for call; readers run `fs::read_to_string`.  The controller owns the order of all
//! their file-system calls, injects faults and process deaths, and evaluates the invariants
//! on the real directory at every step.

use crate::common::{Probes, Prop, RunReport};
use crate::prng::{fnv1a, mix, Rng, FNV_INIT};
use crate::sched::{self, is_crash, is_syscall, ActorSpec, Event, Policy, StepCtx, Violation};
use crate::seam::{self, Action, Actor, Decision, Op, OpKind, World};
use crate::tape::Tape;
use serde::{Deserialize, Serialize};
use std::collections::HashMap;
use std::fs;
use std::rc::Rc;
use std::sync::{Arc, Mutex};
use std::time::Duration;

pub const DIR: &str = "r";
/// names the output file may bear (in `DIR`); the run picks one
pub const OUT_NAMES: [&str; 6] = [
    "out.hex",
    "out.bin",
    "puzzle.clsp.hex",
    "out",
    "OUT.HEX",
    "a-rather-long-output-file-name-of-the-kind-build-systems-derive-from-hashes-0123456789abcdef0123456789abcdef0123456789abcdef.clvm.hex",
];
static OUT_IX: std::sync::atomic::AtomicUsize = std::sync::atomic::AtomicUsize::new(0);
static OUT_PATHS: std::sync::OnceLock<Vec<String>> = std::sync::OnceLock::new();

/// the output path of the current run, relative to the sandbox root
pub fn out_path() -> &'static str {
    let v = OUT_PATHS
        .get_or_init(|| OUT_NAMES.iter().map(|n| format!("{}/{}", DIR, n)).collect());
    &v[OUT_IX.load(std::sync::atomic::Ordering::SeqCst) % v.len()]
}

pub fn set_out(ix: usize) {
    OUT_IX.store(ix, std::sync::atomic::Ordering::SeqCst);
}

#[derive(Serialize, Deserialize, Clone, Debug, PartialEq)]
pub enum DataSpec {
    /// `size` characters derived from `tag`, wrapped in whitespace variant `ws`
    Raw { tag: u32, size: usize, ws: u8 },
    /// what compiling program `tag` writes, wrapped in whitespace variant `ws`
    Compiled { tag: u32, modern: bool, ws: u8 },
}

#[derive(Serialize, Deserialize, Clone, Copy, Debug, PartialEq)]
pub enum Api {
    Atomic,
    Gentle,
    CompileClvm,
    PyPath,
}

#[derive(Serialize, Deserialize, Clone, Debug)]
pub struct Writer {
    pub api: Api,
    pub data: DataSpec,
}

#[derive(Serialize, Deserialize, Clone, Debug)]
pub enum InitialOut {
    Absent,
    File(DataSpec),
    Symlink(DataSpec),
}

#[derive(Serialize, Deserialize, Clone, Debug)]
pub struct Workload {
    pub initial: InitialOut,
    /// output mtime relative to the inputs': -1 older, 0 equal, 1 newer
    pub out_mtime_rel: i8,
    pub litter: u8,
    pub ro_dir: bool,
    pub writers: Vec<Writer>,
    pub readers: u8,
    pub reader_reads: u8,
    /// per-mille probability of a fault / a crash at each mediated call
    pub fault_pm: u16,
    pub crash_pm: u16,
    pub max_faults: u8,
    pub fault_mask: u32,
    pub stay_weight: u8,
    pub clock_mode: u8,
    pub skews_ns: Vec<i64>,
    /// actor that is stalled: it only runs when nobody else can (and, if `stall_from` > 0,
    /// only stalls once that many scheduling steps have passed: stalls mid-operation)
    #[serde(default)]
    pub stalled: Option<u8>,
    #[serde(default)]
    pub stall_from: u16,
    /// static fault: the output file itself cannot be opened for writing (read-only file);
    /// the directory stays writable, so replacing it by rename still works
    #[serde(default)]
    pub ro_file: bool,
    /// every other writer names the output by another spelling: 1 absolute path,
    /// 2 "./r/out.hex", 3 "r/../r/out.hex", 4 through a symlink to the directory,
    /// 5 the bare name "out.hex" from a process whose working directory is the output
    /// directory (no parent component in the path)
    #[serde(default)]
    pub out_form: u8,
    /// actors are forked child processes (own statics, own pid, real death) instead of
    /// threads of the worker
    #[serde(default)]
    pub procs: bool,
    /// with `procs`: every process reports the same pid (separate PID namespaces sharing
    /// the directory)
    #[serde(default)]
    pub same_pid: bool,
    /// history: the existing output file has a second hard link (an artifact store keeping
    /// compiled files by link), so whoever rewrites it in place also rewrites the copy
    #[serde(default)]
    pub extra_link: bool,
    /// history: permission bits of the existing output file (0 = whatever the umask gave)
    #[serde(default)]
    pub out_mode: u32,
    /// which of OUT_NAMES the output file bears (other extensions, no extension, upper
    /// case, a very long name)
    #[serde(default)]
    pub out_name: u8,
}

pub const F_SHORT: u32 = 1;
pub const F_EINTR: u32 = 2;
pub const F_WRITE_ERR: u32 = 4;
pub const F_CREATE_ERR: u32 = 8;
pub const F_RENAME_ERR: u32 = 16;
pub const F_STAT_ERR: u32 = 32;
pub const F_READ_ERR: u32 = 64;
pub const F_UNLINK_ERR: u32 = 128;
pub const F_EEXIST: u32 = 256;

fn ws_wrap(body: &str, ws: u8) -> String {
    match ws % 4 {
        0 => format!("{}\n", body),
        1 => body.to_string(),
        2 => format!("  {}\n\n", body),
        _ => format!("{} \n", body),
    }
}

fn program_text(tag: u32, modern: bool) -> String {
    if modern {
        format!(
            "(mod (X) (include *standard-cl-23*) (defun f (A) (+ A {})) (f X))",
            tag
        )
    } else {
        format!("(mod (X) (defun f (A) (+ A {})) (f X))", tag)
    }
}

lazy_static::lazy_static! {
    static ref COMPILED: Mutex<HashMap<(u32, bool), String>> = Mutex::new(HashMap::new());
}

/// What a solo, fault-free `compile_clvm` of program `tag` leaves in its output file
/// (computed once per process in a twin directory by the sequential code path).
pub fn compiled_reference(tag: u32, modern: bool) -> String {
    if let Some(s) = COMPILED.lock().unwrap().get(&(tag, modern)) {
        return s.clone();
    }
    let _ = fs::create_dir_all("ref");
    let inp = format!("ref/in{}_{}.clsp", tag, modern as u8);
    let out = format!("ref/out{}_{}.hex", tag, modern as u8);
    fs::write(&inp, program_text(tag, modern)).expect("write ref input");
    let _ = fs::remove_file(&out);
    let mut syms = HashMap::new();
    chialisp::classic::clvm_tools::clvmc::compile_clvm(&inp, &out, &[], &mut syms)
        .expect("reference compile");
    let s = fs::read_to_string(&out).expect("reference output");
    COMPILED.lock().unwrap().insert((tag, modern), s.clone());
    s
}

pub fn materialise(d: &DataSpec) -> String {
    match d {
        DataSpec::Raw { tag, size, ws } => {
            let mut r = Rng::new(mix(0xC19, *tag as u64));
            let mut body = String::with_capacity(*size + 8);
            while body.len() < *size {
                body.push_str(&format!("{:016x}", r.next_u64()));
            }
            body.truncate(*size);
            ws_wrap(&body, *ws)
        }
        DataSpec::Compiled { tag, modern, ws } => {
            let s = compiled_reference(*tag, *modern);
            ws_wrap(s.trim(), *ws)
        }
    }
}

// ---------------------------------------------------------------------------------------
// workload generation
// ---------------------------------------------------------------------------------------

pub fn generate(rng: &mut Rng, thorough: bool) -> Workload {
    let max_writers = if thorough { 8 } else { 4 };
    let nw = match rng.below(10) {
        0..=2 => 1,
        3..=5 => 2,
        _ => rng.range(1, max_writers) as usize,
    };
    let compile_run = rng.chance(1, 8);
    let max_size: usize = match rng.below(if thorough { 12 } else { 10 }) {
        0..=4 => 40,
        5..=7 => 5000,
        8..=9 => 70_000,
        _ => 1 << 20,
    };
    let mut mk_data = |rng: &mut Rng, idx: u32, compile: bool| -> DataSpec {
        if compile {
            DataSpec::Compiled {
                tag: 1 + rng.below(6) as u32,
                modern: rng.chance(1, 3),
                ws: 0,
            }
        } else {
            DataSpec::Raw {
                tag: 100 + idx * 16 + rng.below(3) as u32,
                size: rng.below(max_size as u64 + 1) as usize,
                ws: rng.below(4) as u8,
            }
        }
    };
    let mut writers = Vec::new();
    for i in 0..nw {
        let api = if compile_run {
            *rng.pick(&[Api::CompileClvm, Api::CompileClvm, Api::PyPath, Api::Gentle])
        } else {
            *rng.pick(&[Api::Gentle, Api::Gentle, Api::Atomic])
        };
        let compile = matches!(api, Api::CompileClvm | Api::PyPath);
        let mut data = mk_data(rng, i as u32, compile);
        // several writers producing the same contents (the motivating scenario)
        if i > 0 && rng.chance(1, 3) {
            let prev: &Writer = &writers[rng.below(i as u64) as usize];
            let prev_compiled = matches!(prev.data, DataSpec::Compiled { .. });
            if prev_compiled == compile {
                data = prev.data.clone();
            }
        }
        writers.push(Writer { api, data });
    }
    // history of the output path
    let initial = match rng.below(10) {
        0..=2 => InitialOut::Absent,
        3..=4 => {
            // same contents as some writer, possibly up to whitespace
            let w = rng.pick(&writers).data.clone();
            let w = match w {
                DataSpec::Raw { tag, size, .. } => DataSpec::Raw {
                    tag,
                    size,
                    ws: rng.below(4) as u8,
                },
                DataSpec::Compiled { tag, modern, .. } => DataSpec::Compiled {
                    tag,
                    modern,
                    ws: *rng.pick(&[0u8, 0, 1, 2]),
                },
            };
            InitialOut::File(w)
        }
        5..=8 => InitialOut::File(DataSpec::Raw {
            tag: 7,
            size: rng.below(max_size as u64 + 1) as usize,
            ws: rng.below(4) as u8,
        }),
        _ => InitialOut::Symlink(DataSpec::Raw {
            tag: 8,
            size: rng.below(2000) as usize,
            ws: 0,
        }),
    };
    let faulty = rng.below(4) != 0;
    let n_actors = nw + 3;
    Workload {
        initial,
        out_mtime_rel: rng.below(3) as i8 - 1,
        litter: if rng.chance(1, 5) {
            rng.range(1, 3) as u8
        } else {
            0
        },
        ro_dir: rng.chance(1, 12),
        writers,
        readers: *rng.pick(&[0u8, 0, 1, 1, 2, 3]),
        reader_reads: rng.range(1, 3) as u8,
        fault_pm: if faulty {
            *rng.pick(&[20u16, 60, 150, 300])
        } else {
            0
        },
        crash_pm: if faulty {
            *rng.pick(&[0u16, 10, 40, 120])
        } else {
            0
        },
        max_faults: rng.range(1, 4) as u8,
        fault_mask: if rng.chance(1, 2) {
            0x1ff
        } else {
            rng.below(0x200) as u32
        },
        stay_weight: *rng.pick(&[1u8, 2, 4, 12, 40]),
        clock_mode: rng.below(3) as u8,
        skews_ns: (0..n_actors)
            .map(|_| {
                if rng.chance(1, 4) {
                    rng.below(4_000_000_000) as i64 - 2_000_000_000
                } else {
                    0
                }
            })
            .collect(),
        stalled: if rng.chance(1, 6) {
            Some(rng.below(nw as u64) as u8)
        } else {
            None
        },
        stall_from: *rng.pick(&[0u16, 0, 3, 6, 10, 14]),
        ro_file: rng.chance(1, 12),
        out_form: if rng.chance(1, 3) { rng.range(1, 5) as u8 } else { 0 },
        // rare: in this VM every fork costs ~20 ms of time serialised across all workers
        procs: (rng.chance(1, 160) || std::env::var("DSIM_FORCE_PROCS").is_ok())
            && std::env::var("DSIM_NO_PROCS").is_err(),
        same_pid: rng.chance(1, 2),
        extra_link: rng.chance(1, 6),
        out_mode: if rng.chance(1, 4) {
            *rng.pick(&[0o600u32, 0o755, 0o664, 0o640, 0o4755])
        } else {
            0
        },
        out_name: if rng.chance(1, 3) {
            rng.range(1, OUT_NAMES.len() as u64 - 1) as u8
        } else {
            0
        },
    }
}

// ---------------------------------------------------------------------------------------
// sandbox setup
// ---------------------------------------------------------------------------------------

fn set_mtime(path: &str, secs_after_epoch: i64) {
    let c = std::ffi::CString::new(path).unwrap();
    let ts = [
        libc::timespec {
            tv_sec: seam::SIM_EPOCH_S + secs_after_epoch,
            tv_nsec: 0,
        },
        libc::timespec {
            tv_sec: seam::SIM_EPOCH_S + secs_after_epoch,
            tv_nsec: 0,
        },
    ];
    unsafe {
        libc::syscall(
            libc::SYS_utimensat,
            libc::AT_FDCWD,
            c.as_ptr(),
            ts.as_ptr(),
            libc::AT_SYMLINK_NOFOLLOW,
        );
    }
}

fn input_path(i: usize) -> String {
    format!("{}/in{}.clsp", DIR, i)
}

pub fn setup_dir(wl: &Workload) -> Option<Vec<u8>> {
    let _ = fs::remove_dir_all(DIR);
    fs::create_dir_all(DIR).expect("mkdir sandbox run dir");
    let _ = fs::remove_file("r_link");
    if wl.out_form == 4 {
        let _ = std::os::unix::fs::symlink(DIR, "r_link");
    }
    let mut initial: Option<Vec<u8>> = None;
    match &wl.initial {
        InitialOut::Absent => {}
        InitialOut::File(d) => {
            let s = materialise(d);
            fs::write(out_path(), &s).unwrap();
            if wl.out_mode != 0 {
                use std::os::unix::fs::PermissionsExt;
                let _ = fs::set_permissions(out_path(), fs::Permissions::from_mode(wl.out_mode));
            }
            if wl.extra_link {
                let _ = fs::hard_link(out_path(), format!("{}/store-3f9a.hex", DIR));
            }
            initial = Some(s.into_bytes());
        }
        InitialOut::Symlink(d) => {
            let s = materialise(d);
            fs::write(format!("{}/real_out.hex", DIR), &s).unwrap();
            std::os::unix::fs::symlink("real_out.hex", out_path()).unwrap();
            initial = Some(s.into_bytes());
        }
    }
    for (i, w) in wl.writers.iter().enumerate() {
        if let DataSpec::Compiled { tag, modern, .. } = &w.data {
            fs::write(input_path(i), program_text(*tag, *modern)).unwrap();
            set_mtime(&input_path(i), 500);
        }
    }
    if initial.is_some() {
        set_mtime(out_path(), 500 + wl.out_mtime_rel as i64);
        if matches!(wl.initial, InitialOut::Symlink(_)) {
            set_mtime(&format!("{}/real_out.hex", DIR), 500 + wl.out_mtime_rel as i64);
        }
    }
    for k in 0..wl.litter {
        fs::write(format!("{}/.tmpLiTr{:02}", DIR, k), b"stale partial out").unwrap();
    }
    // the static "cannot write here" faults are injected at the seam (the sandbox runs as
    // root, for whom mode bits do not bite); the mode bits say the same, for code that
    // looks at them instead of trying
    {
        use std::os::unix::fs::PermissionsExt;
        if wl.ro_file && matches!(wl.initial, InitialOut::File(_)) {
            let _ = fs::set_permissions(out_path(), fs::Permissions::from_mode(0o444));
        }
        if wl.ro_dir {
            let _ = fs::set_permissions(DIR, fs::Permissions::from_mode(0o555));
        }
    }
    initial
}

// ---------------------------------------------------------------------------------------
// actors
// ---------------------------------------------------------------------------------------

fn py_path_compile(input: &str, output: &str) -> Result<(), String> {
    use chialisp::classic::clvm::__type_compatibility__::{Bytes, BytesFromType};
    use chialisp::classic::clvm_tools::clvmc;
    use chialisp::compiler::compiler::DefaultCompilerOpts;
    use chialisp::compiler::comptypes::CompilerOpts;
    use clvmr::allocator::Allocator;
    use clvmr::serde::node_to_bytes;
    let file_content = fs::read_to_string(input).map_err(|e| format!("read {input}: {e:?}"))?;
    let def_opts: Rc<dyn CompilerOpts> = Rc::new(DefaultCompilerOpts::new(input));
    let opts = def_opts.set_search_paths(&[]);
    let mut allocator = Allocator::new();
    let mut symbols = HashMap::new();
    let res = clvmc::compile_clvm_text(
        &mut allocator,
        opts.clone(),
        &mut symbols,
        &file_content,
        input,
        true,
    )
    .map_err(|e| e.format(&allocator, opts))?;
    let mut hex_text = Bytes::new(Some(BytesFromType::Raw(
        node_to_bytes(&allocator, res).map_err(|e| e.to_string())?,
    )))
    .hex();
    hex_text += "\n";
    chialisp::util::gentle_overwrite(input, output, &hex_text)
}

fn writer_body(idx: usize, w: Writer, out_form: u8) -> Box<dyn FnOnce(&Actor) + Send + 'static> {
    Box::new(move |actor: &Actor| {
        let (data, out_path) = {
            let _g = seam::HarnessGuard::new();
            let d = match w.api {
                Api::Atomic | Api::Gentle => materialise(&w.data),
                _ => String::new(),
            };
            // the same file under other spellings (other parent-directory handling)
            let o = match out_form {
                1 => format!("{}/{}", seam::root(), out_path()),
                2 => format!("./{}", out_path()),
                3 => format!("{}/../{}", DIR, out_path()),
                4 => format!("r_link/{}", &out_path()[DIR.len() + 1..]),
                5 => out_path()[DIR.len() + 1..].to_string(),
                _ => out_path().to_string(),
            };
            (d, o)
        };
        if out_form == 5 {
            let _g = seam::HarnessGuard::new();
            *actor.cwd.borrow_mut() = DIR.to_string();
        }
        let out: &str = &out_path;
        actor.boundary("call", &format!("{:?}", w.api));
        let inp = if out_form == 5 {
            let _g = seam::HarnessGuard::new();
            format!("{}/{}", seam::root(), input_path(idx))
        } else {
            input_path(idx)
        };
        let r: Result<(), String> = match w.api {
            Api::Atomic => chialisp::util::atomic_write_file(&inp, out, &data),
            Api::Gentle => chialisp::util::gentle_overwrite(&inp, out, &data),
            Api::CompileClvm => {
                let mut syms = HashMap::new();
                chialisp::classic::clvm_tools::clvmc::compile_clvm(&inp, out, &[], &mut syms)
                    .map(|_| ())
            }
            // the real Python entry point where this build has it (thread-backed actors
            // only: a forked child has no usable interpreter), else its call sequence
            Api::PyPath => {
                let real = if actor.is_proc() {
                    None
                } else {
                    crate::pybind::compile_clvm(&inp, out, &[])
                };
                match real {
                    Some(r) => r.map(|_| ()),
                    None => py_path_compile(&inp, out),
                }
            }
        };
        let info = {
            let _g = seam::HarnessGuard::new();
            match &r {
                Ok(()) => "ok".to_string(),
                Err(e) => format!("err:{}", e),
            }
        };
        actor.boundary("ret", &info);
    })
}

fn reader_body(reads: u8) -> Box<dyn FnOnce(&Actor) + Send + 'static> {
    Box::new(move |actor: &Actor| {
        for _ in 0..reads {
            actor.boundary("rd", "");
            let r = fs::read_to_string(out_path());
            let info = {
                let _g = seam::HarnessGuard::new();
                match &r {
                    Ok(s) => {
                        let mut h = FNV_INIT;
                        fnv1a(&mut h, s.as_bytes());
                        format!("ok:{}:{:016x}", s.len(), h)
                    }
                    Err(e) if e.kind() == std::io::ErrorKind::NotFound => "nf".to_string(),
                    Err(e) => format!("err:{:?}", e.kind()),
                }
            };
            actor.boundary("rdret", &info);
        }
    })
}

// ---------------------------------------------------------------------------------------
// policy: faults + invariants
// ---------------------------------------------------------------------------------------

struct ActorTrack {
    is_writer: bool,
    api: Option<Api>,
    data: Vec<u8>,
    in_call: bool,
    hard_read_fault: bool,
    other_publish: bool,
    same_at_call: bool,
    reader_faulted: bool,
    exists_at_open: bool,
    dead: bool,
}

pub struct C19Policy {
    wl: Workload,
    allowed: Vec<Vec<u8>>,
    allowed_hash: Vec<(usize, u64)>,
    initial: Option<Vec<u8>>,
    must_exist: bool,
    tracks: Vec<ActorTrack>,
    proc: usize,
    faults_used: u32,
    last_pub: Option<usize>,
    fault_after_pub: bool,
    any_fault: bool,
    deferred: Option<Violation>,
    pub probes: Probes,
    step_now: u32,
    fault_free: bool,
    dir_print: u64,
}

/// Error texts carry the sandbox path and random temporary names; messages must not.
fn scrub(t: &str) -> String {
    let mut names = sched::TempNames::new();
    names.norm_text(t)
}

fn trim_eq(a: &[u8], b: &[u8]) -> bool {
    match (std::str::from_utf8(a), std::str::from_utf8(b)) {
        (Ok(x), Ok(y)) => x.trim() == y.trim(),
        _ => false,
    }
}

fn describe(bytes: &[u8], allowed: &[Vec<u8>]) -> String {
    if bytes.is_empty() {
        return "empty file".to_string();
    }
    for a in allowed {
        if a.len() > bytes.len() && a.starts_with(bytes) {
            return format!("partial file: {} of {} bytes of a legal value", bytes.len(), a.len());
        }
    }
    format!(
        "{} bytes that are neither the previous nor any writer's complete contents (starts {:?})",
        bytes.len(),
        String::from_utf8_lossy(&bytes[..bytes.len().min(24)])
    )
}

impl C19Policy {
    pub fn new(wl: &Workload, initial: Option<Vec<u8>>, fault_free: bool) -> C19Policy {
        let mut allowed: Vec<Vec<u8>> = Vec::new();
        if let Some(i) = &initial {
            allowed.push(i.clone());
        }
        let mut tracks = Vec::new();
        for w in wl.writers.iter() {
            let d = materialise(&w.data).into_bytes();
            if !allowed.contains(&d) {
                allowed.push(d.clone());
            }
            tracks.push(ActorTrack {
                is_writer: true,
                api: Some(w.api),
                data: d,
                in_call: false,
                hard_read_fault: false,
                other_publish: false,
                same_at_call: false,
                reader_faulted: false,
                exists_at_open: false,
                dead: false,
            });
        }
        for _ in 0..wl.readers {
            tracks.push(ActorTrack {
                is_writer: false,
                api: None,
                data: vec![],
                in_call: false,
                hard_read_fault: false,
                other_publish: false,
                same_at_call: false,
                reader_faulted: false,
                exists_at_open: false,
                dead: false,
            });
        }
        let allowed_hash = allowed
            .iter()
            .map(|a| {
                let mut h = FNV_INIT;
                fnv1a(&mut h, a);
                (a.len(), h)
            })
            .collect();
        C19Policy {
            wl: wl.clone(),
            must_exist: initial.is_some(),
            allowed,
            allowed_hash,
            initial,
            tracks,
            proc: 0,
            faults_used: 0,
            last_pub: None,
            fault_after_pub: false,
            any_fault: false,
            deferred: None,
            probes: Probes::default(),
            step_now: 0,
            fault_free,
            dir_print: 0,
        }
    }

    fn viol(&self, inv: &str, msg: String) -> Violation {
        Violation {
            invariant: inv.to_string(),
            message: msg,
            step: self.step_now,
        }
    }

    fn read_out() -> Result<Option<Vec<u8>>, String> {
        match fs::read(out_path()) {
            Ok(b) => Ok(Some(b)),
            Err(e) if e.kind() == std::io::ErrorKind::NotFound => Ok(None),
            Err(e) => Err(format!("{:?}", e)),
        }
    }

    fn check_path_state(&mut self) -> Result<(), Violation> {
        match Self::read_out() {
            Ok(None) => {
                if self.must_exist {
                    return Err(self.viol(
                        "C19.1-missing",
                        "output path does not exist although it held complete contents earlier"
                            .to_string(),
                    ));
                }
            }
            Ok(Some(b)) => {
                self.must_exist = true;
                if !self.allowed.iter().any(|a| *a == b) {
                    let d = describe(&b, &self.allowed);
                    return Err(self.viol("C19.1-contents", format!("output path holds {}", d)));
                }
            }
            Err(e) => {
                return Err(self.viol(
                    "C19.1-unreadable",
                    format!("output path cannot be read: {}", e),
                ))
            }
        }
        Ok(())
    }

    fn absorb_events(&mut self, events: &[Event]) {
        while self.proc < events.len() {
            let e = &events[self.proc];
            self.proc += 1;
            if e.action != Action::Proceed {
                self.fault_after_pub = true;
            }
            if is_crash(&e.action) {
                self.tracks[e.actor].dead = true;
            }
            let publishes = matches!(e.kind, OpKind::Rename | OpKind::Link)
                && e.path2 == out_path()
                && e.ret == 0
                && matches!(e.action, Action::Proceed | Action::CrashAfter);
            if publishes {
                self.last_pub = Some(e.actor);
                self.fault_after_pub = is_crash(&e.action);
                for (i, t) in self.tracks.iter_mut().enumerate() {
                    if i != e.actor && t.in_call {
                        t.other_publish = true;
                    }
                }
            }
        }
    }
}

const CLK_STEPS: [u64; 6] = [0, 1, 1_000, 1_000_000, 1_000_000_000, 3_600_000_000_000];

impl Policy for C19Policy {
    fn stay_weight(&self) -> u32 {
        self.wl.stay_weight.max(1) as u32
    }

    fn stalled(&self, actor: usize, step: u32) -> bool {
        self.wl.stalled == Some(actor as u8) && step >= self.wl.stall_from as u32
    }

    fn check(&mut self, ctx: &StepCtx) -> Result<(), Violation> {
        self.step_now = ctx.step;
        self.absorb_events(ctx.events);
        // loss-of-resolution probe: the directory may only change through a mediated call
        // that can change it.  A change after any other kind of step means the code under
        // test reached the disk by a route the seam does not mediate (child process, raw
        // system call); the invariants below still see the resulting states, but not the
        // ones in between.  Counted, never judged.
        {
            use std::os::unix::fs::MetadataExt;
            let mut h = FNV_INIT;
            // cheap fingerprint: the directory's own mtime (changes on create / unlink /
            // rename) and the output's identity, size and mtime
            for p in [DIR, out_path()] {
                if let Ok(m) = fs::symlink_metadata(p) {
                    fnv1a(&mut h, &m.len().to_le_bytes());
                    fnv1a(&mut h, &m.ino().to_le_bytes());
                    fnv1a(&mut h, &m.mtime().to_le_bytes());
                    fnv1a(&mut h, &m.mtime_nsec().to_le_bytes());
                } else {
                    fnv1a(&mut h, b"absent");
                }
            }
            if let Ok(m) = fs::metadata(out_path()) {
                fnv1a(&mut h, &m.len().to_le_bytes());
                fnv1a(&mut h, &m.ino().to_le_bytes());
                fnv1a(&mut h, &m.mtime_nsec().to_le_bytes());
            }
            if self.dir_print != 0 && h != self.dir_print {
                let mutating = ctx.events.last().map(|e| {
                    matches!(
                        e.kind,
                        OpKind::OpenWrite
                            | OpKind::Write
                            | OpKind::Rename
                            | OpKind::Link
                            | OpKind::Unlink
                            | OpKind::Truncate
                            | OpKind::Mkdir
                            | OpKind::Rmdir
                            | OpKind::Symlink
                            | OpKind::Chmod
                    )
                });
                if mutating != Some(true) {
                    self.probes.hit("unmediated_fs_changes");
                }
            }
            self.dir_print = h;
        }
        if let Some(v) = self.deferred.take() {
            return Err(v);
        }
        self.check_path_state()
    }

    fn decide(&mut self, actor: usize, op: &Op, tape: &mut Tape, world: &Arc<World>) -> Decision {
        // clock
        let delta = match self.wl.clock_mode {
            0 => 0,
            1 => CLK_STEPS[tape.choose("clk", &[4, 3, 3, 2, 0, 0])],
            _ => CLK_STEPS[tape.choose("clk", &[3, 1, 1, 2, 3, 1])],
        };
        if delta > 0 {
            world.advance_clock(delta);
        }
        let out_like = op.path == out_path() || op.path2 == out_path();
        match op.kind {
            OpKind::Boundary | OpKind::Start | OpKind::Preempt => {
                let label = op.path.as_str();
                let info = op.path2.as_str();
                let t = &mut self.tracks[actor];
                match label {
                    "call" => {
                        t.in_call = true;
                        t.hard_read_fault = false;
                        t.other_publish = false;
                        let cur = Self::read_out().ok().flatten();
                        t.same_at_call = match cur {
                            Some(c) => trim_eq(&c, &t.data),
                            None => false,
                        };
                    }
                    "ret" => {
                        t.in_call = false;
                        let ok = info == "ok";
                        if ok {
                            self.probes.hit("writer_returned_ok");
                        } else {
                            self.probes.hit("writer_returned_err");
                        }
                        let gentle = matches!(
                            t.api,
                            Some(Api::Gentle) | Some(Api::CompileClvm) | Some(Api::PyPath)
                        );
                        if gentle && t.same_at_call && !t.other_publish && !t.hard_read_fault {
                            self.probes.hit("same_contents_call_judged");
                            if self.any_fault || self.wl.ro_dir || self.wl.ro_file {
                                self.probes.hit("same_contents_call_judged_under_fault");
                            }
                            if !ok {
                                let m = format!(
                                    "writer {} ({:?}): new contents equal the old ones up to \
                                     surrounding whitespace, yet the call failed: {}",
                                    actor,
                                    t.api.unwrap(),
                                    scrub(info)
                                );
                                self.deferred = Some(self.viol("C19.4-same-contents-fails", m));
                            }
                        }
                        if self.fault_free && !ok {
                            let api = self.tracks[actor].api;
                            let m = format!(
                                "writer {} ({:?}) failed although no fault was injected: {}",
                                actor,
                                api,
                                scrub(info)
                            );
                            if self.deferred.is_none() {
                                self.deferred = Some(self.viol("C19.0-fault-free-call-fails", m));
                            }
                        }
                    }
                    "rd" => {
                        t.reader_faulted = false;
                        t.exists_at_open = false;
                    }
                    "rdret" => {
                        if !t.reader_faulted {
                            if info == "nf" {
                                self.probes.hit("reader_saw_absent");
                                if t.exists_at_open {
                                    self.deferred = Some(self.viol(
                                        "C19.2-reader-enoent",
                                        format!(
                                            "reader {} got NotFound although the path existed when it opened it",
                                            actor
                                        ),
                                    ));
                                }
                            } else if let Some(rest) = info.strip_prefix("ok:") {
                                self.probes.hit("reader_complete_read");
                                let mut it = rest.split(':');
                                let len: usize = it.next().unwrap_or("0").parse().unwrap_or(0);
                                let h = u64::from_str_radix(it.next().unwrap_or("0"), 16)
                                    .unwrap_or(0);
                                if !self.allowed_hash.contains(&(len, h)) {
                                    self.deferred = Some(self.viol(
                                        "C19.2-reader-contents",
                                        format!(
                                            "reader {} read {} bytes that are not the complete old or new contents",
                                            actor, len
                                        ),
                                    ));
                                }
                            } else {
                                // e.g. InvalidData for a torn multi-byte sequence cannot
                                // happen with ASCII payloads; any error without an injected
                                // fault is a bad observation
                                self.deferred = Some(self.viol(
                                    "C19.2-reader-error",
                                    format!(
                                        "reader {} failed without an injected fault: {}",
                                        actor,
                                        scrub(info)
                                    ),
                                ));
                            }
                        }
                    }
                    _ => {}
                }
                return Decision::proceed();
            }
            _ => {}
        }

        // bookkeeping for the ENOENT clause
        if op.kind == OpKind::OpenRead && op.path == out_path() {
            self.tracks[actor].exists_at_open = fs::metadata(out_path()).is_ok();
        }

        let mut action = Action::Proceed;
        // static fault: directory is not writable
        if self.wl.ro_dir {
            let creates = op.kind == OpKind::OpenWrite
                && op.flags & (libc::O_CREAT | libc::O_TMPFILE) != 0;
            if creates
                || matches!(
                    op.kind,
                    OpKind::Rename | OpKind::Link | OpKind::Unlink | OpKind::Mkdir | OpKind::Symlink
                )
            {
                action = Action::Fail(libc::EACCES);
                self.probes.fault("static_readonly_dir_EACCES");
            }
        }

        if action == Action::Proceed
            && self.wl.ro_file
            && op.kind == OpKind::OpenWrite
            && op.path == out_path()
        {
            action = Action::Fail(libc::EACCES);
            self.probes.fault("static_readonly_output_file_EACCES");
        }

        if action == Action::Proceed
            && !self.fault_free
            && (self.faults_used as u8) < self.wl.max_faults
        {
            let m = self.wl.fault_mask;
            if self.wl.crash_pm > 0 && tape.chance("crash", self.wl.crash_pm as u32, 1000) {
                let k = if op.kind == OpKind::Write && op.len > 1 {
                    tape.choose("crashpos", &[1, 1, 2])
                } else {
                    tape.choose("crashpos", &[1, 1])
                };
                action = match k {
                    0 => Action::CrashBefore,
                    1 => Action::CrashAfter,
                    _ => Action::CrashInside(1 + tape.below("crashlen", op.len as u64 - 1) as usize),
                };
                self.probes
                    .fault(&format!("crash_{:?}_{}", op.kind, ["before", "after", "inside"][k]));
            } else if self.wl.fault_pm > 0 && tape.chance("fault", self.wl.fault_pm as u32, 1000) {
                // candidate faults for this call
                let mut cands: Vec<(Action, &'static str)> = Vec::new();
                match op.kind {
                    OpKind::OpenRead => {
                        if m & F_EINTR != 0 {
                            cands.push((Action::Fail(libc::EINTR), "open_EINTR"));
                        }
                        if m & F_READ_ERR != 0 {
                            cands.push((Action::Fail(libc::EACCES), "openread_EACCES"));
                            cands.push((Action::Fail(libc::EMFILE), "openread_EMFILE"));
                            cands.push((Action::Fail(libc::EIO), "openread_EIO"));
                        }
                    }
                    OpKind::OpenWrite => {
                        if m & F_EINTR != 0 {
                            cands.push((Action::Fail(libc::EINTR), "open_EINTR"));
                        }
                        if m & F_EEXIST != 0 && op.flags & libc::O_EXCL != 0 {
                            cands.push((Action::Fail(libc::EEXIST), "create_EEXIST"));
                        }
                        if m & F_CREATE_ERR != 0 {
                            cands.push((Action::Fail(libc::EACCES), "create_EACCES"));
                            cands.push((Action::Fail(libc::EROFS), "create_EROFS"));
                            cands.push((Action::Fail(libc::EMFILE), "create_EMFILE"));
                            cands.push((Action::Fail(libc::ENOSPC), "create_ENOSPC"));
                        }
                    }
                    OpKind::Read => {
                        if m & F_EINTR != 0 {
                            cands.push((Action::Fail(libc::EINTR), "read_EINTR"));
                        }
                        if m & F_SHORT != 0 && op.len > 1 {
                            cands.push((Action::Short(0), "read_short"));
                        }
                        if m & F_READ_ERR != 0 {
                            cands.push((Action::Fail(libc::EIO), "read_EIO"));
                        }
                    }
                    OpKind::Write => {
                        if m & F_EINTR != 0 {
                            cands.push((Action::Fail(libc::EINTR), "write_EINTR"));
                        }
                        if m & F_SHORT != 0 && op.len > 1 {
                            cands.push((Action::Short(0), "write_short"));
                            cands.push((Action::Short(0), "write_short"));
                        }
                        if m & F_WRITE_ERR != 0 {
                            cands.push((Action::Fail(libc::ENOSPC), "write_ENOSPC"));
                            cands.push((Action::Fail(libc::EIO), "write_EIO"));
                            cands.push((Action::Fail(libc::EDQUOT), "write_EDQUOT"));
                        }
                    }
                    OpKind::Stat => {
                        if m & F_STAT_ERR != 0 {
                            cands.push((Action::Fail(libc::ENOENT), "stat_ENOENT"));
                            cands.push((Action::Fail(libc::EACCES), "stat_EACCES"));
                        }
                    }
                    OpKind::Rename | OpKind::Link => {
                        if m & F_RENAME_ERR != 0 {
                            cands.push((Action::Fail(libc::EXDEV), "rename_EXDEV"));
                            cands.push((Action::Fail(libc::EPERM), "rename_EPERM"));
                            cands.push((Action::Fail(libc::EIO), "rename_EIO"));
                            cands.push((Action::Fail(libc::ENOSPC), "rename_ENOSPC"));
                            cands.push((Action::Fail(libc::EACCES), "rename_EACCES"));
                        }
                    }
                    OpKind::Unlink | OpKind::Truncate | OpKind::Chmod => {
                        if m & F_UNLINK_ERR != 0 {
                            cands.push((Action::Fail(libc::EIO), "unlink_or_truncate_EIO"));
                        }
                    }
                    _ => {}
                }
                if !cands.is_empty() {
                    let k = tape.below("faultkind", cands.len() as u64) as usize;
                    let (mut a, name) = cands[k];
                    if let Action::Short(_) = a {
                        a = Action::Short(1 + tape.below("shortlen", op.len as u64 - 1) as usize);
                    }
                    let mut label = name.to_string();
                    // every hard failure of a call is, one time in three, replaced by an errno
                    // from a wide list: code that special-cases one error kind (EBUSY of a
                    // mount point, ETXTBSY, EROFS ...) must not get away with it
                    if let Action::Fail(e) = a {
                        if e != libc::EINTR && e != libc::EEXIST && tape.chance("wide", 1, 3) {
                            const WIDE: [(i32, &str); 14] = [
                                (libc::EBUSY, "EBUSY"),
                                (libc::ETXTBSY, "ETXTBSY"),
                                (libc::EROFS, "EROFS"),
                                (libc::EDQUOT, "EDQUOT"),
                                (libc::ENOMEM, "ENOMEM"),
                                (libc::ENFILE, "ENFILE"),
                                (libc::ELOOP, "ELOOP"),
                                (libc::ENAMETOOLONG, "ENAMETOOLONG"),
                                (libc::ENOTDIR, "ENOTDIR"),
                                (libc::EMLINK, "EMLINK"),
                                (libc::EFBIG, "EFBIG"),
                                (libc::ENOTEMPTY, "ENOTEMPTY"),
                                (libc::ENOENT, "ENOENT"),
                                (libc::EOPNOTSUPP, "EOPNOTSUPP"),
                            ];
                            let w = WIDE[tape.below("wideerrno", WIDE.len() as u64) as usize];
                            a = Action::Fail(w.0);
                            label = format!("{:?}_{}", op.kind, w.1);
                        }
                    }
                    action = a;
                    self.probes.fault(&label);
                }
            }
            if action != Action::Proceed {
                self.faults_used += 1;
                self.any_fault = true;
            }
        }

        // what the fault means for the clauses that excuse read-side trouble
        let hard = match action {
            Action::Fail(e) => e != libc::EINTR,
            Action::Proceed | Action::Short(_) => false,
            _ => true,
        };
        if hard {
            let t = &mut self.tracks[actor];
            if !t.is_writer {
                t.reader_faulted = true;
            } else if matches!(op.kind, OpKind::OpenRead | OpKind::Read | OpKind::Stat) {
                t.hard_read_fault = true;
            } else if is_crash(&action) {
                t.hard_read_fault = true;
            }
        }
        let _ = out_like;
        Decision {
            action,
            next_preempt: 0,
        }
    }

    fn finish(&mut self, _world: &Arc<World>, events: &[Event]) -> Result<(), Violation> {
        self.absorb_events(events);
        if let Some(v) = self.deferred.take() {
            return Err(v);
        }
        self.check_path_state()?;
        // clause 3: quiescent state is the last publisher's data
        if !self.fault_after_pub {
            let cur = Self::read_out().ok().flatten();
            match self.last_pub {
                Some(w) => {
                    self.probes.hit("last_publisher_judged");
                    if cur.as_deref() != Some(&self.tracks[w].data[..]) {
                        return Err(self.viol(
                            "C19.3-last-rename-wins",
                            format!(
                                "all writers returned, writer {} renamed last, but the output holds other contents",
                                w
                            ),
                        ));
                    }
                }
                None => {
                    // No rename/link onto the output was seen.  The contents were already
                    // judged by clause 1 at every step; *how* a complete legal value got
                    // there is not part of C19, so nothing more is demanded here (an earlier
                    // "changed without publish" clause was removed as over-strict, DESIGN §11).
                    if cur != self.initial {
                        self.probes.hit("output_changed_without_rename_or_link");
                    }
                }
            }
        }
        Ok(())
    }
}

// ---------------------------------------------------------------------------------------
// one run
// ---------------------------------------------------------------------------------------

fn analyse(wl: &Workload, events: &[Event], initial: &Option<Vec<u8>>, probes: &mut Probes) -> bool {
    // non-trivial rule: some writer created its temp file with contents different from the
    // initial ones and, before that writer renamed (or died), another actor made a mediated
    // call or a fault/crash fired.
    let nw = wl.writers.len();
    let mut nontrivial = false;
    let mut renames: Vec<usize> = Vec::new();
    for w in 0..nw {
        let data = materialise(&wl.writers[w].data).into_bytes();
        let differs = initial.as_ref().map(|i| *i != data).unwrap_or(true);
        let mut start: Option<usize> = None;
        for (i, e) in events.iter().enumerate() {
            if e.actor != w {
                continue;
            }
            if e.kind == OpKind::OpenWrite && e.ret >= 0 && e.action == Action::Proceed {
                if start.is_none() {
                    start = Some(i);
                }
            }
            let ends = (matches!(e.kind, OpKind::Rename | OpKind::Link) && e.path2 == out_path())
                || is_crash(&e.action);
            if ends {
                if e.kind == OpKind::Rename && e.ret == 0 {
                    renames.push(i);
                }
                if let Some(s) = start {
                    let mut other = false;
                    let mut fault = false;
                    for x in &events[s..=i] {
                        if x.actor != w && is_syscall(x.kind) {
                            other = true;
                            if x.actor >= nw && x.kind == OpKind::Read {
                                probes.hit("reader_read_inside_write_window");
                            }
                        }
                        if x.action != Action::Proceed {
                            fault = true;
                        }
                    }
                    if is_crash(&e.action) {
                        let wrote = events[s..=i]
                            .iter()
                            .any(|x| x.actor == w && x.kind == OpKind::Write);
                        if wrote && !matches!(e.kind, OpKind::Rename) {
                            probes.hit("crash_between_write_and_rename");
                        } else if e.kind == OpKind::Rename {
                            probes.hit("crash_at_rename");
                        } else {
                            probes.hit("crash_before_first_write");
                        }
                    }
                    if differs && (other || fault) {
                        nontrivial = true;
                    }
                    if other {
                        probes.hit("write_window_interleaved_with_other_actor");
                    }
                }
                start = None;
            }
        }
    }
    renames.sort();
    for p in renames.windows(2) {
        if events[p[0]].actor != events[p[1]].actor {
            probes.hit("renames_by_two_writers_in_one_run");
            if p[1] == p[0] + 1 {
                probes.hit("two_writers_renames_adjacent");
            }
        }
    }
    if events
        .iter()
        .any(|e| e.kind == OpKind::OpenWrite && e.action == Action::Fail(libc::EEXIST))
    {
        probes.hit("tempfile_name_collision_retry");
    }
    nontrivial
}

pub fn run_one(wl: &Workload, tape: &mut Tape, entropy_seed: u64) -> Result<RunReport, String> {
    set_out(wl.out_name as usize);
    let _ = out_path();
    let initial = setup_dir(wl);
    let n_actors = wl.writers.len() + wl.readers as usize;
    let world = seam::new_world(n_actors, true, 1_000_000_000_000);
    let mut specs = Vec::new();
    for (i, w) in wl.writers.iter().enumerate() {
        specs.push(ActorSpec {
            name: format!("writer{}", i),
            entropy_seed: mix(entropy_seed, i as u64),
            skew_ns: *wl.skews_ns.get(i).unwrap_or(&0),
            // small stacks are recycled by glibc's stack cache; the compile writers only
            // ever compile a three-line program
            stack_bytes: if matches!(w.api, Api::CompileClvm | Api::PyPath) {
                16 << 20
            } else {
                1 << 20
            },
            body: writer_body(i, w.clone(), if i % 2 == 0 { wl.out_form } else { 0 }),
        });
    }
    for r in 0..wl.readers as usize {
        let i = wl.writers.len() + r;
        specs.push(ActorSpec {
            name: format!("reader{}", r),
            entropy_seed: mix(entropy_seed, i as u64),
            skew_ns: *wl.skews_ns.get(i).unwrap_or(&0),
            stack_bytes: 1 << 20,
            body: reader_body(wl.reader_reads),
        });
    }
    let fault_free = wl.fault_pm == 0 && wl.crash_pm == 0 && !wl.ro_dir && !wl.ro_file;
    let mut policy = C19Policy::new(wl, initial.clone(), fault_free);
    let out = if wl.procs {
        let fake: Vec<i32> = if wl.same_pid {
            vec![4242; n_actors]
        } else {
            vec![0; n_actors]
        };
        crate::procsim::run_procs(
            world.clone(),
            specs,
            tape,
            &mut policy,
            4000,
            Duration::from_secs(60),
            &fake,
        )
    } else {
        sched::run(
            world.clone(),
            specs,
            tape,
            &mut policy,
            4000,
            Duration::from_secs(60),
        )
    }
    .map_err(|e| format!("{:?}", e))?;
    if wl.extra_link && matches!(wl.initial, InitialOut::File(_)) {
        policy.probes.hit("history_output_has_second_hard_link");
    }
    if wl.out_mode != 0 && matches!(wl.initial, InitialOut::File(_)) {
        policy.probes.hit("history_output_has_unusual_mode_bits");
    }
    if !wl.procs && crate::pybind::available() {
        let n = wl.writers.iter().filter(|w| w.api == Api::PyPath).count();
        if n > 0 {
            policy.probes.hit_n("writer_through_python_binding_compile_clvm", n as u64);
        }
    }
    if wl.out_name != 0 {
        policy.probes.hit(&format!(
            "output_named_{}",
            &OUT_NAMES[wl.out_name as usize % OUT_NAMES.len()]
                .chars()
                .take(16)
                .collect::<String>()
        ));
    }
    if wl.procs {
        policy.probes.hit("run_with_process_backed_actors");
        if wl.same_pid {
            policy.probes.hit("run_with_processes_reporting_equal_pids");
        }
    }
    let mut probes = policy.probes.clone();
    let mut violation = out.violation.clone();
    let nontrivial = analyse(wl, &out.events, &initial, &mut probes);
    let mut events = out.events;
    let start_ns = 1_000_000_000_000u64;
    let mut sim_ns = world.now_ns() - start_ns;

    // clause 5: liveness once faults have stopped
    if violation.is_none() && !out.truncated {
        let fin = DataSpec::Raw {
            tag: 99,
            size: 50,
            ws: 0,
        };
        let lw = Workload {
            initial: InitialOut::Absent,
            out_mtime_rel: 0,
            litter: 0,
            ro_dir: false,
            writers: vec![Writer {
                api: Api::Gentle,
                data: fin.clone(),
            }],
            readers: 0,
            reader_reads: 0,
            fault_pm: 0,
            crash_pm: 0,
            max_faults: 0,
            fault_mask: 0,
            stay_weight: 1,
            clock_mode: 0,
            skews_ns: vec![0],
            stalled: None,
            stall_from: 0,
            ro_file: false,
            out_form: 0,
            procs: false,
            same_pid: false,
            extra_link: false,
            out_mode: 0,
            out_name: wl.out_name,
        };
        let world2 = seam::new_world(1, true, world.now_ns());
        let mut pol2 = LivenessPolicy {};
        let specs2 = vec![ActorSpec {
            name: "recovery".to_string(),
            entropy_seed: mix(entropy_seed, 999),
            skew_ns: 0,
            stack_bytes: 1 << 20,
            body: writer_body(0, lw.writers[0].clone(), 0),
        }];
        let out2 = sched::run(world2.clone(), specs2, tape, &mut pol2, 64, Duration::from_secs(60))
            .map_err(|e| format!("{:?}", e))?;
        sim_ns += world2.now_ns().saturating_sub(world.now_ns());
        let ok_ret = out2
            .events
            .iter()
            .any(|e| e.kind == OpKind::Boundary && e.path == "ret" && e.path2 == "ok");
        let cur = fs::read(out_path()).ok();
        let want = materialise(&fin).into_bytes();
        let base = events.len() as u32;
        if out2.truncated || !ok_ret || cur.as_deref() != Some(&want[..]) {
            violation = Some(Violation {
                invariant: "C19.5-liveness".to_string(),
                message: format!(
                    "after faults stopped, one fault-free gentle_overwrite did not install its contents within 64 mediated calls (returned ok: {}, truncated: {}, contents match: {})",
                    ok_ret,
                    out2.truncated,
                    cur.as_deref() == Some(&want[..])
                ),
                step: base,
            });
        } else {
            probes.hit("recovery_write_ok");
        }
        for mut e in out2.events {
            e.step += base;
            e.actor = 100;
            events.push(e);
        }
    }
    let _ = fs::remove_dir_all(DIR);
    let log_hash = sched::hash_events(&events);
    Ok(RunReport {
        violation,
        steps: events.len() as u32,
        events,
        tape: tape.rec.clone(),
        distinct_key: log_hash,
        log_hash,
        nontrivial,
        truncated: out.truncated,
        sim_ns,
        probes,
        panics: out.panics,
        detail: serde_json::json!({"context_switches": out.switches}),
        extra_keys: vec![],
    })
}

struct LivenessPolicy {}
impl Policy for LivenessPolicy {
    fn check(&mut self, _ctx: &StepCtx) -> Result<(), Violation> {
        Ok(())
    }
    fn decide(&mut self, _a: usize, _op: &Op, _t: &mut Tape, world: &Arc<World>) -> Decision {
        world.advance_clock(1_000_000);
        Decision::proceed()
    }
    fn finish(&mut self, _w: &Arc<World>, _e: &[Event]) -> Result<(), Violation> {
        Ok(())
    }
}

// ---------------------------------------------------------------------------------------
// Prop
// ---------------------------------------------------------------------------------------

pub struct C19;

fn shrink_data(d: &DataSpec) -> Vec<DataSpec> {
    let mut v = Vec::new();
    match d {
        DataSpec::Raw { tag, size, ws } => {
            if *size > 12 {
                v.push(DataSpec::Raw { tag: *tag, size: 12, ws: *ws });
                v.push(DataSpec::Raw { tag: *tag, size: size / 2, ws: *ws });
            }
            if *ws != 0 {
                v.push(DataSpec::Raw { tag: *tag, size: *size, ws: 0 });
            }
        }
        DataSpec::Compiled { tag, modern, ws } => {
            if *modern {
                v.push(DataSpec::Compiled { tag: *tag, modern: false, ws: *ws });
            }
            if *ws != 0 {
                v.push(DataSpec::Compiled { tag: *tag, modern: *modern, ws: 0 });
            }
        }
    }
    v
}

impl Prop for C19 {
    type W = Workload;
    fn id() -> &'static str {
        "C19"
    }
    fn init_process() {
        crate::pybind::init();
        // force lazy statics of the compiler on a non-actor thread, and the reference
        // outputs of every program a compile writer may be given
        for tag in 1..=6u32 {
            for modern in [false, true] {
                let _ = compiled_reference(tag, modern);
            }
        }
    }
    fn generate(rng: &mut Rng, thorough: bool, _idx: u64) -> Workload {
        generate(rng, thorough)
    }
    fn run(w: &Workload, tape: &mut Tape, ent: u64) -> Result<RunReport, String> {
        run_one(w, tape, ent)
    }
    fn shrink(w: &Workload) -> Vec<Workload> {
        let mut out = Vec::new();
        for i in 0..w.writers.len() {
            if w.writers.len() > 1 {
                let mut c = w.clone();
                c.writers.remove(i);
                if i < c.skews_ns.len() {
                    c.skews_ns.remove(i);
                }
                out.push(c);
            }
        }
        if w.readers > 0 {
            let mut c = w.clone();
            c.readers = 0;
            out.push(c);
            if w.readers > 1 {
                let mut c = w.clone();
                c.readers = 1;
                out.push(c);
            }
        }
        if w.reader_reads > 1 {
            let mut c = w.clone();
            c.reader_reads = 1;
            out.push(c);
        }
        if w.fault_pm > 0 || w.crash_pm > 0 {
            let mut c = w.clone();
            c.fault_pm = 0;
            c.crash_pm = 0;
            out.push(c);
        }
        if w.ro_dir {
            let mut c = w.clone();
            c.ro_dir = false;
            out.push(c);
        }
        if w.litter > 0 {
            let mut c = w.clone();
            c.litter = 0;
            out.push(c);
        }
        if w.stalled.is_some() {
            let mut c = w.clone();
            c.stalled = None;
            out.push(c);
        }
        if w.ro_file {
            let mut c = w.clone();
            c.ro_file = false;
            out.push(c);
        }
        if w.out_form != 0 {
            let mut c = w.clone();
            c.out_form = 0;
            out.push(c);
        }
        if w.procs {
            let mut c = w.clone();
            c.procs = false;
            out.push(c);
            if w.same_pid {
                let mut c = w.clone();
                c.same_pid = false;
                out.push(c);
            }
        }
        if w.clock_mode != 0 {
            let mut c = w.clone();
            c.clock_mode = 0;
            out.push(c);
        }
        if w.skews_ns.iter().any(|x| *x != 0) {
            let mut c = w.clone();
            c.skews_ns = vec![0; w.skews_ns.len()];
            out.push(c);
        }
        if w.out_mtime_rel != 0 {
            let mut c = w.clone();
            c.out_mtime_rel = 0;
            out.push(c);
        }
        if w.out_name != 0 {
            let mut c = w.clone();
            c.out_name = 0;
            out.push(c);
        }
        if w.extra_link {
            let mut c = w.clone();
            c.extra_link = false;
            out.push(c);
        }
        if w.out_mode != 0 {
            let mut c = w.clone();
            c.out_mode = 0;
            out.push(c);
        }
        match &w.initial {
            InitialOut::Absent => {}
            InitialOut::File(d) => {
                let mut c = w.clone();
                c.initial = InitialOut::Absent;
                out.push(c);
                for d2 in shrink_data(d) {
                    let mut c = w.clone();
                    c.initial = InitialOut::File(d2);
                    out.push(c);
                }
            }
            InitialOut::Symlink(d) => {
                let mut c = w.clone();
                c.initial = InitialOut::File(d.clone());
                out.push(c);
            }
        }
        for i in 0..w.writers.len() {
            if w.writers[i].api != Api::Gentle && w.writers[i].api != Api::Atomic {
                let mut c = w.clone();
                c.writers[i].api = Api::Gentle;
                out.push(c);
            }
            if let DataSpec::Compiled { .. } = w.writers[i].data {
                if matches!(w.writers[i].api, Api::Gentle | Api::Atomic) {
                    let mut c = w.clone();
                    c.writers[i].data = DataSpec::Raw { tag: 100 + i as u32 * 16, size: 12, ws: 0 };
                    out.push(c);
                }
            }
            for d2 in shrink_data(&w.writers[i].data) {
                let mut c = w.clone();
                c.writers[i].data = d2;
                out.push(c);
            }
        }
        out
    }
    fn runs_for_tier(thorough: bool) -> u64 {
        if thorough {
            900_000
        } else {
            120_000
        }
    }
    fn determinism_runs() -> u64 {
        2000
    }
    fn rule() -> &'static str {
        "one evaluation = one simulated run: a seeded workload (history of the output path, 1..8 writer processes running the real atomic_write_file / gentle_overwrite / compile_clvm / Python-entry-point sequence, 0..3 readers) executed under a seeded schedule with injected faults and process deaths, invariants C19.1-C19.5 evaluated on the real directory at every scheduling step. Non-trivial = some writer created its temporary file with contents different from the initial ones and, before that writer's rename (or death), another actor performed a mediated file-system call or a fault/crash fired. Distinct = distinct hash of the whole normalised event log (actor, call, normalised paths, length, injected action, result) among non-trivial runs."
    }
    fn assumptions() -> Vec<String> {
        vec![
            "in most runs a simulated process is a thread of the harness (shared pid, shared statics, death modelled by ghosting: from the crash instant every file-system call of the dead actor fails without reaching the kernel). In 1 run of 160 (probe run_with_process_backed_actors) every actor is a forked child process of the worker driven by the same controller through shared memory and futexes: its statics and thread-locals are its own, death is a real _exit with no destructor run, and in half of these runs all processes report the same getpid() (separate PID namespaces sharing the directory), so uniqueness built from pid plus a per-process counter is exercised (seeded/C19-temp-name-from-pid-and-counter). The rate is low because every fork costs about 20 ms serialised across all workers in this VM (software-virtualised page tables)".to_string(),
            "power loss (unsynced data vanishing) is not modelled because C19 states process death only".to_string(),
            "the disk is the kernel's tmpfs: rename/O_EXCL/unlink semantics are the real ones; interleavings are explored at system-call granularity, each call being atomic as the kernel makes it".to_string(),
            "exploration samples schedules and fault placements; a clean batch is evidence, not proof".to_string(),
        ]
    }
    fn real_vs_stub() -> serde_json::Value {
        serde_json::json!({
            "real": ["chialisp::util::atomic_write_file", "chialisp::util::gentle_overwrite", "chialisp::classic::clvm_tools::clvmc::compile_clvm (incl. dep_util::newer, the compiler itself)", "py/api.rs run_clvm_compilation re-enacted call for call (read, compile_clvm_text, node_to_bytes, gentle_overwrite) in process-backed runs and in builds without the binding", "tempfile 3.22 (NamedTempFile, persist) built with rustix_use_libc", "std::fs", "kernel tmpfs"],
            "simulated": ["scheduler (who performs the next file-system call)", "clock (clock_gettime, file mtimes)", "entropy (getrandom)", "fault decisions per call", "process death (ghosting in thread-backed runs, _exit of the child in process-backed runs)", "getpid() in process-backed runs"],
            "python_binding": if crate::pybind::available() { "real: src/py/api.rs `compile_clvm` (pyo3 0.24, CPython 3.11 embedded in the worker; the GIL is handed back while an actor is parked) for every PyPath writer of thread-backed runs" } else { "not in this build (built with --no-default-features): re-enacted" },
            "not_run": ["wasm bindings"]
        })
    }
    fn bounds(thorough: bool) -> serde_json::Value {
        serde_json::json!({
            "writers": if thorough { "1..8" } else { "1..4" },
            "readers": "0..3",
            "payload_bytes": if thorough { "0..1 MiB" } else { "0..70000" },
            "max_steps_per_run": 4000,
            "max_faults_per_run": "1..4 (plus static read-only-directory configuration)"
        })
    }
}
