//! The controller: spawns actor threads, releases exactly one at a time, lets a `Policy`
//! check invariants at every quiescent point and decide faults, and records the event log.

use crate::prng::{fnv1a, FNV_INIT};
use crate::seam::{self, Action, Actor, Decision, Op, OpKind, World};
use crate::tape::Tape;
use serde::{Deserialize, Serialize};
use std::collections::HashMap;
use std::panic::AssertUnwindSafe;
use std::sync::Arc;
use std::time::Duration;

#[derive(Clone, Debug, Serialize, Deserialize)]
pub struct Event {
    pub step: u32,
    pub actor: usize,
    pub kind: OpKind,
    pub path: String,
    pub path2: String,
    pub len: usize,
    #[serde(default)]
    pub fd: i32,
    pub action: Action,
    /// result of the real call (patched in when the actor next yields or finishes);
    /// for a crash-after / crash-inside decision this is what the kernel returned, not
    /// what the dying actor saw
    pub ret: i64,
    pub errno: i32,
    pub done: bool,
    pub clock_ns: u64,
}

#[derive(Clone, Debug, Serialize, Deserialize)]
pub struct Violation {
    pub invariant: String,
    pub message: String,
    pub step: u32,
}

pub struct ActorSpec {
    pub name: String,
    pub entropy_seed: u64,
    pub skew_ns: i64,
    pub stack_bytes: usize,
    pub body: Box<dyn FnOnce(&Actor) + Send + 'static>,
}

pub struct StepCtx<'a> {
    pub world: &'a Arc<World>,
    pub step: u32,
    pub pending: &'a [(usize, Op)],
    /// all events so far; results of completed calls are filled in
    pub events: &'a [Event],
}

pub trait Policy {
    /// Evaluate invariants; all actors are parked or finished.
    fn check(&mut self, ctx: &StepCtx) -> Result<(), Violation>;
    /// Decide what happens to `op` of `actor` (fault / crash / proceed) and advance the clock.
    fn decide(&mut self, actor: usize, op: &Op, tape: &mut Tape, world: &Arc<World>) -> Decision;
    /// Weight of staying on the same actor vs. each other runnable actor.
    fn stay_weight(&self) -> u32 {
        3
    }
    /// A stalled actor is not scheduled while any other actor can run (a slow or stopped
    /// process that resumes after everybody else is done).
    fn stalled(&self, _actor: usize, _step: u32) -> bool {
        false
    }
    /// Called once after all actors finished (final-state invariants).
    fn finish(&mut self, world: &Arc<World>, events: &[Event]) -> Result<(), Violation>;
}

/// What the controller needs from a set of actors, whether they are threads of this process
/// (`World`) or forked child processes (`procsim::ProcArena`).
pub trait Arena {
    fn wait_quiescent(&self, timeout: Duration) -> Result<(), seam::Watchdog>;
    fn pending(&self) -> Vec<(usize, Op)>;
    /// finished actors with the result of their last mediated call
    fn finished(&self) -> Vec<(usize, i64, i32)>;
    fn grant(&self, id: usize, d: Decision);
}

impl Arena for World {
    fn wait_quiescent(&self, timeout: Duration) -> Result<(), seam::Watchdog> {
        World::wait_quiescent(self, timeout)
    }
    fn pending(&self) -> Vec<(usize, Op)> {
        World::pending(self)
    }
    fn finished(&self) -> Vec<(usize, i64, i32)> {
        let st = self.st.lock().unwrap();
        st.slots
            .iter()
            .enumerate()
            .filter(|(_, s)| matches!(s.state, crate::seam::SlotState::Finished))
            .map(|(i, s)| (i, s.ret, s.errno))
            .collect()
    }
    fn grant(&self, id: usize, d: Decision) {
        World::grant(self, id, d)
    }
}

pub struct LoopOutcome {
    pub events: Vec<Event>,
    pub violation: Option<Violation>,
    pub truncated: bool,
    pub switches: u32,
}

#[derive(Debug)]
pub enum RunError {
    Watchdog(String),
}

pub struct RunOutcome {
    pub events: Vec<Event>,
    pub violation: Option<Violation>,
    pub truncated: bool,
    pub panics: Vec<(usize, String)>,
    pub log_hash: u64,
    pub switches: u32,
}

pub struct TempNames {
    map: HashMap<String, String>,
}

impl TempNames {
    pub fn new() -> TempNames {
        TempNames {
            map: HashMap::new(),
        }
    }
    /// Hidden components (`.tmpXXXXXX` of tempfile, or whatever staging name the code under
    /// test invents: `.out.hex.123.partial`) become `T<n>` in order of first appearance.
    pub fn norm(&mut self, p: &str) -> String {
        if !p.contains("/.") && !p.starts_with('.') {
            return p.to_string();
        }
        let mut out = Vec::new();
        for comp in p.split('/') {
            if is_hidden_name(comp) {
                let n = self.map.len();
                let e = self
                    .map
                    .entry(comp.to_string())
                    .or_insert_with(|| format!("T{}", n));
                out.push(e.clone());
            } else {
                out.push(comp.to_string());
            }
        }
        out.join("/")
    }
}

/// a dot file with a real name: not `.`, `..`, nor a short extension-like fragment
fn is_hidden_name(comp: &str) -> bool {
    comp.starts_with('.') && comp.len() >= 5 && comp != ".." && !comp.starts_with("..")
}

fn name_char(c: u8) -> bool {
    c.is_ascii_alphanumeric() || c == b'.' || c == b'_' || c == b'-'
}

impl TempNames {
    /// Free text (error messages): sandbox root and temporary names are normalised.
    pub fn norm_text(&mut self, t: &str) -> String {
        let t = t.replace(seam::root(), "<sandbox>");
        if !t.contains("/.") && !t.contains(".tmp") {
            return t;
        }
        let b = t.as_bytes();
        let mut out = String::new();
        let mut i = 0;
        while i < b.len() {
            // a hidden name directly after a path separator, or tempfile's bare `.tmpXXXXXX`
            let after_sep = i > 0 && b[i - 1] == b'/';
            let mut end = i;
            if b[i] == b'.' && (after_sep || b[i..].starts_with(b".tmp")) {
                end = i + 1;
                while end < b.len() && name_char(b[end]) {
                    end += 1;
                }
                // punctuation of the sentence is not part of the name
                while end > i + 1 && b[end - 1] == b'.' {
                    end -= 1;
                }
                if !after_sep {
                    // bare form: exactly `.tmp` + six characters, as before
                    end = if i + 10 <= b.len()
                        && b[i + 4..i + 10].iter().all(|c| c.is_ascii_alphanumeric())
                    {
                        i + 10
                    } else {
                        i
                    };
                }
            }
            if end > i && is_hidden_name(&t[i..end]) {
                let name = &t[i..end];
                let n = self.map.len();
                let e = self
                    .map
                    .entry(name.to_string())
                    .or_insert_with(|| format!("T{}", n));
                out.push_str(e);
                i = end;
            } else {
                // `t` may hold multi-byte characters: copy one whole character
                let ch = t[i..].chars().next().unwrap();
                out.push(ch);
                i += ch.len_utf8();
            }
        }
        out
    }
}

pub fn is_syscall(k: OpKind) -> bool {
    !matches!(k, OpKind::Start | OpKind::Boundary | OpKind::Preempt)
}

pub fn is_crash(a: &Action) -> bool {
    matches!(
        a,
        Action::CrashBefore | Action::CrashAfter | Action::CrashInside(_)
    )
}

pub fn hash_events(events: &[Event]) -> u64 {
    let mut h = FNV_INIT;
    for e in events {
        fnv1a(&mut h, &(e.actor as u32).to_le_bytes());
        fnv1a(&mut h, format!("{:?}", e.kind).as_bytes());
        fnv1a(&mut h, e.path.as_bytes());
        fnv1a(&mut h, b"|");
        fnv1a(&mut h, e.path2.as_bytes());
        fnv1a(&mut h, &(e.len as u64).to_le_bytes());
        fnv1a(&mut h, format!("{:?}", e.action).as_bytes());
        // descriptor numbers depend on what else the process has open: only their sign counts
        let ret = if matches!(e.kind, OpKind::OpenRead | OpKind::OpenWrite) && e.ret >= 0 {
            0
        } else {
            e.ret
        };
        fnv1a(&mut h, &ret.to_le_bytes());
        fnv1a(&mut h, &e.errno.to_le_bytes());
    }
    h
}

/// The controller loop proper: release one actor at a time, let the policy judge and decide.
pub fn control_loop<P: Policy, A: Arena + ?Sized>(
    arena: &A,
    world: &Arc<World>,
    n: usize,
    tape: &mut Tape,
    policy: &mut P,
    max_steps: u32,
    watchdog: Duration,
) -> Result<LoopOutcome, RunError> {
    let mut events: Vec<Event> = Vec::new();
    let mut names = TempNames::new();
    let mut violation: Option<Violation> = None;
    let mut truncated = false;
    let mut last_actor: Option<usize> = None;
    let mut step: u32 = 0;
    let mut switches = 0u32;
    let mut wd_err: Option<RunError> = None;
    let mut last_ev: Vec<Option<usize>> = vec![None; n];

    loop {
        if arena.wait_quiescent(watchdog).is_err() {
            wd_err = Some(RunError::Watchdog(format!(
                "no yield within {:?} at step {} (last actor {:?})",
                watchdog, step, last_actor
            )));
            break;
        }
        let pend = arena.pending();
        // fill in results of calls that have completed since the last quiescent point
        for (id, op) in pend.iter() {
            if let Some(ix) = last_ev[*id] {
                let e = &mut events[ix];
                if !e.done {
                    e.done = true;
                    if is_syscall(e.kind) {
                        e.ret = op.prev_ret;
                        e.errno = op.prev_errno;
                    }
                }
            }
        }
        for (id, ret, errno) in arena.finished() {
            if let Some(ix) = last_ev[id] {
                let e = &mut events[ix];
                if !e.done {
                    e.done = true;
                    if is_syscall(e.kind) {
                        e.ret = ret;
                        e.errno = errno;
                    }
                }
            }
        }
        if violation.is_none() && !truncated {
            let ctx = StepCtx {
                world,
                step,
                pending: &pend,
                events: &events,
            };
            if let Err(v) = policy.check(&ctx) {
                violation = Some(v);
            }
        }
        if pend.is_empty() {
            break;
        }
        if violation.is_some() || truncated {
            // drain: kill everybody still alive, one at a time
            let (id, _) = pend[0];
            arena.grant(
                id,
                Decision {
                    action: Action::CrashBefore,
                    next_preempt: 0,
                },
            );
            continue;
        }
        if step >= max_steps {
            truncated = true;
            continue;
        }
        // choose who runs: option 0 = same actor as before if it is runnable, else lowest id
        let mut order: Vec<usize> = Vec::with_capacity(pend.len());
        if let Some(l) = last_actor {
            if pend.iter().any(|(i, _)| *i == l) {
                order.push(l);
            }
        }
        for (i, _) in pend.iter() {
            if Some(*i) != order.first().copied() {
                order.push(*i);
            }
        }
        if order.len() > 1 {
            let awake: Vec<usize> = order
                .iter()
                .copied()
                .filter(|a| !policy.stalled(*a, step))
                .collect();
            if !awake.is_empty() {
                order = awake;
            }
        }
        let next = if order.len() == 1 {
            order[0]
        } else {
            let mut w = vec![1u32; order.len()];
            w[0] = policy.stay_weight();
            order[tape.choose("sched", &w)]
        };
        if last_actor.is_some() && last_actor != Some(next) {
            switches += 1;
        }
        let op = pend.iter().find(|(i, _)| *i == next).unwrap().1.clone();
        let d = policy.decide(next, &op, tape, world);
        events.push(Event {
            step,
            actor: next,
            kind: op.kind,
            path: names.norm(&op.path),
            path2: if op.kind == OpKind::Boundary {
                // long payloads (compiled hex) are for the policy, not for the log
                let t = names.norm_text(&op.path2);
                if t.len() > 240 {
                    let mut k = 240;
                    while !t.is_char_boundary(k) {
                        k -= 1;
                    }
                    format!("{}...", &t[..k])
                } else {
                    t
                }
            } else {
                names.norm(&op.path2)
            },
            len: op.len,
            fd: op.fd,
            action: d.action,
            ret: 0,
            errno: 0,
            done: false,
            clock_ns: world.now_ns(),
        });
        last_ev[next] = Some(events.len() - 1);
        arena.grant(next, d);
        last_actor = Some(next);
        step += 1;
    }

    if let Some(e) = wd_err {
        return Err(e);
    }
    Ok(LoopOutcome {
        events,
        violation,
        truncated,
        switches,
    })
}

pub fn run<P: Policy>(
    world: Arc<World>,
    specs: Vec<ActorSpec>,
    tape: &mut Tape,
    policy: &mut P,
    max_steps: u32,
    watchdog: Duration,
) -> Result<RunOutcome, RunError> {
    let n = specs.len();
    let mut handles = Vec::new();
    let panics: Arc<std::sync::Mutex<Vec<(usize, String)>>> =
        Arc::new(std::sync::Mutex::new(Vec::new()));
    for (id, spec) in specs.into_iter().enumerate() {
        let w = world.clone();
        let pn = panics.clone();
        let ActorSpec {
            name,
            entropy_seed,
            skew_ns,
            stack_bytes,
            body,
        } = spec;
        let h = std::thread::Builder::new()
            .name(name)
            .stack_size(stack_bytes)
            .spawn(move || {
                let actor = Actor::new(id, w, entropy_seed, skew_ns);
                unsafe { actor.install() };
                let d = actor.boundary("start", "");
                let _ = d;
                if !actor.is_ghost() {
                    let r = std::panic::catch_unwind(AssertUnwindSafe(|| body(&actor)));
                    if let Err(e) = r {
                        let _g = seam::HarnessGuard::new();
                        let msg = if let Some(s) = e.downcast_ref::<&str>() {
                            s.to_string()
                        } else if let Some(s) = e.downcast_ref::<String>() {
                            s.clone()
                        } else {
                            "panic".to_string()
                        };
                        pn.lock().unwrap().push((id, msg));
                    }
                }
                actor.finish();
                Actor::uninstall();
            })
            .expect("spawn actor");
        handles.push(h);
    }

    let lo = control_loop(&*world, &world, n, tape, policy, max_steps, watchdog)?;
    // (on a watchdog error the stuck threads cannot be joined; the caller must treat this
    // process as poisoned)
    for h in handles {
        let _ = h.join();
    }
    let LoopOutcome {
        events,
        mut violation,
        truncated,
        switches,
    } = lo;
    if violation.is_none() && !truncated {
        if let Err(v) = policy.finish(&world, &events) {
            violation = Some(v);
        }
    }
    let log_hash = hash_events(&events);
    let panics = panics.lock().unwrap().clone();
    Ok(RunOutcome {
        events,
        violation,
        truncated,
        panics,
        log_hash,
        switches,
    })
}
