//! The real Python binding of the crate under test (`src/py/api.rs`), called through an
//! embedded interpreter.
//!
//! `src/py` is only compiled into a Python extension module, and its functions can only be
//! reached from Python.  With the `pybinding` feature the simulator links libpython, registers
//! the extension's `PyInit_chialisp` as a built-in module before the interpreter starts, and
//! calls `chialisp.compile_clvm` / `compile` / `check_dependencies` / `launch_tool` from actor
//! threads.  The binding keeps the GIL for a whole call, while the simulator parks an actor
//! in the middle of it; the park hooks of the seam therefore hand the GIL back while an actor
//! is parked (exactly one actor runs at any time, so nobody else touches its objects).
//!
//! Without the feature every function returns `None` and callers fall back to re-enacting
//! the binding's call sequence in Rust.

#[cfg(feature = "pybinding")]
mod imp {
    use crate::seam;
    use pyo3::ffi;
    use pyo3::prelude::*;
    use pyo3::types::PyDict;
    use std::cell::Cell;
    use std::collections::BTreeMap;
    use std::sync::OnceLock;

    extern "C" {
        fn PyInit_chialisp() -> *mut ffi::PyObject;
    }

    struct Funcs {
        compile_clvm: Py<PyAny>,
        compile: Py<PyAny>,
        check_dependencies: Py<PyAny>,
        launch_tool: Py<PyAny>,
    }

    static FUNCS: OnceLock<Option<Funcs>> = OnceLock::new();

    thread_local! {
        /// > 0 while this thread is inside a call made through this module (it holds the GIL)
        static IN_PY: Cell<u32> = const { Cell::new(0) };
    }

    fn before_park() -> usize {
        if IN_PY.with(|c| c.get()) > 0 {
            unsafe { ffi::PyEval_SaveThread() as usize }
        } else {
            0
        }
    }

    fn after_park(tok: usize) {
        if tok != 0 {
            unsafe { ffi::PyEval_RestoreThread(tok as *mut ffi::PyThreadState) }
        }
    }

    /// Start the interpreter (once per process, on the main thread, before any actor exists).
    pub fn init() -> bool {
        FUNCS
            .get_or_init(|| unsafe {
                // keep the interpreter away from whatever python is first on PATH
                if std::path::Path::new("/usr/lib/python3.11/os.py").exists() {
                    std::env::set_var("PYTHONHOME", "/usr");
                }
                std::env::set_var("PYTHONDONTWRITEBYTECODE", "1");
                std::env::set_var("PYTHONHASHSEED", "0");
                std::env::set_var("PYTHONNOUSERSITE", "1");
                std::env::remove_var("PYTHONPATH");
                let name = c"chialisp";
                if ffi::PyImport_AppendInittab(name.as_ptr(), Some(PyInit_chialisp)) != 0 {
                    return None;
                }
                ffi::Py_InitializeEx(0);
                if ffi::Py_IsInitialized() == 0 {
                    return None;
                }
                let funcs = Python::with_gil(|py| -> PyResult<Funcs> {
                    let m = py.import("chialisp")?;
                    Ok(Funcs {
                        compile_clvm: m.getattr("compile_clvm")?.unbind(),
                        compile: m.getattr("compile")?.unbind(),
                        check_dependencies: m.getattr("check_dependencies")?.unbind(),
                        launch_tool: m.getattr("launch_tool")?.unbind(),
                    })
                });
                // the main thread gives the GIL up for good: actors take it call by call
                ffi::PyEval_SaveThread();
                match funcs {
                    Ok(f) => {
                        seam::set_park_hooks(before_park, after_park);
                        Some(f)
                    }
                    Err(_) => None,
                }
            })
            .is_some()
    }

    fn funcs() -> Option<&'static Funcs> {
        FUNCS.get().and_then(|f| f.as_ref())
    }

    struct InPy;
    impl InPy {
        fn new() -> InPy {
            IN_PY.with(|c| c.set(c.get() + 1));
            InPy
        }
    }
    impl Drop for InPy {
        fn drop(&mut self) {
            IN_PY.with(|c| c.set(c.get() - 1));
        }
    }

    /// Take the GIL for the duration of `f`.  Taking and giving back the GIL (and creating
    /// or deleting this thread's interpreter state) is the interpreter's own business: it
    /// happens in harness mode, so that a clock read inside libpython's locking is never a
    /// scheduling point (the thread would be parked while holding the runtime's lock).
    fn with_py<R>(f: impl FnOnce(Python<'_>) -> R) -> R {
        struct Gil(ffi::PyGILState_STATE);
        impl Drop for Gil {
            fn drop(&mut self) {
                let _h = seam::HarnessGuard::new();
                unsafe { ffi::PyGILState_Release(self.0) }
            }
        }
        let _gil = {
            let _h = seam::HarnessGuard::new();
            Gil(unsafe { ffi::PyGILState_Ensure() })
        };
        let _in = InPy::new();
        f(unsafe { Python::assume_gil_acquired() })
    }

    fn err_text(py: Python<'_>, e: PyErr) -> String {
        let ty = e
            .get_type(py)
            .name()
            .map(|n| n.to_string())
            .unwrap_or_default();
        format!("{}: {}", ty, e.value(py))
    }

    /// `chialisp.compile_clvm(input, output, search_paths)`: the file-to-file entry point
    pub fn compile_clvm(
        input: &str,
        output: &str,
        search: &[String],
    ) -> Option<Result<String, String>> {
        let f = funcs()?;
        Some(with_py(|py| {
            match f
                .compile_clvm
                .call1(py, (input, output, search.to_vec()))
            {
                Ok(o) => o
                    .extract::<String>(py)
                    .map_err(|e| err_text(py, e)),
                Err(e) => Err(err_text(py, e)),
            }
        }))
    }

    /// `chialisp.compile(source, search_paths, export_symbols=True)`: hex and symbols
    pub fn compile(
        source: &str,
        search: &[String],
    ) -> Option<Result<(String, BTreeMap<String, String>), String>> {
        let f = funcs()?;
        Some(with_py(|py| {
            match f.compile.call1(py, (source, search.to_vec(), true)) {
                Ok(o) => {
                    let d = o
                        .downcast_bound::<PyDict>(py)
                        .map_err(|e| format!("not a dict: {}", e))?;
                    let out: String = d
                        .get_item("output")
                        .map_err(|e| err_text(py, e))?
                        .ok_or("no output")?
                        .extract()
                        .map_err(|e| err_text(py, e))?;
                    let syms: BTreeMap<String, String> = d
                        .get_item("symbols")
                        .map_err(|e| err_text(py, e))?
                        .ok_or("no symbols")?
                        .extract()
                        .map_err(|e| err_text(py, e))?;
                    Ok((out, syms))
                }
                Err(e) => Err(err_text(py, e)),
            }
        }))
    }

    /// `chialisp.check_dependencies(input, search_paths)`
    pub fn check_dependencies(
        input: &str,
        search: &[String],
    ) -> Option<Result<Vec<String>, String>> {
        let f = funcs()?;
        Some(with_py(|py| {
            match f.check_dependencies.call1(py, (input, search.to_vec())) {
                Ok(o) => o
                    .extract::<Vec<String>>(py)
                    .map_err(|e| err_text(py, e)),
                Err(e) => Err(err_text(py, e)),
            }
        }))
    }

    /// `chialisp.launch_tool(name, args, stage)`: the command line front ends, output as bytes
    pub fn launch_tool(name: &str, args: &[String], stage: u32) -> Option<Result<Vec<u8>, String>> {
        let f = funcs()?;
        Some(with_py(|py| {
            match f.launch_tool.call1(py, (name, args.to_vec(), stage)) {
                Ok(o) => o
                    .extract::<Vec<u8>>(py)
                    .map_err(|e| err_text(py, e)),
                Err(e) => Err(err_text(py, e)),
            }
        }))
    }
}

#[cfg(not(feature = "pybinding"))]
mod imp {
    use std::collections::BTreeMap;
    pub fn init() -> bool {
        false
    }
    pub fn compile_clvm(_: &str, _: &str, _: &[String]) -> Option<Result<String, String>> {
        None
    }
    pub fn compile(
        _: &str,
        _: &[String],
    ) -> Option<Result<(String, BTreeMap<String, String>), String>> {
        None
    }
    pub fn check_dependencies(_: &str, _: &[String]) -> Option<Result<Vec<String>, String>> {
        None
    }
    pub fn launch_tool(_: &str, _: &[String], _: u32) -> Option<Result<Vec<u8>, String>> {
        None
    }
}

pub use imp::*;

/// whether this build runs the real binding
pub fn available() -> bool {
    cfg!(feature = "pybinding")
}
