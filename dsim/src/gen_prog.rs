//! Seeded generator of well-scoped Chialisp modules (workload for C05) and a tiny
//! s-expression reader/printer used to shrink failing programs structurally.

use crate::prng::Rng;

pub const SIGILS: [&str; 7] = [
    "",
    "*standard-cl-21*",
    "*strict-cl-21*",
    "*standard-cl-22*",
    "*standard-cl-23*",
    "*standard-cl-23.1*",
    "*standard-cl-24*",
];

struct Fun {
    name: String,
    nargs: usize,
    is_macro: bool,
}

struct Gen<'a> {
    r: &'a mut Rng,
    modern: bool,
    strict: bool,
    funs: Vec<Fun>,
    consts: Vec<String>,
    var_ctr: u32,
    budget: i32,
    allow_lambda: bool,
    name_space: u64,
}

const LITS: [&str; 22] = [
    "0", "1", "2", "7", "13", "19", "20", "100", "127", "128", "255", "256", "-1", "-128", "-129",
    "0x00", "0x0000", "0x0080", "0xff", "0x00ff", "\"hello\"", "\"\"",
];
const OPS2: [&str; 9] = ["+", "*", "-", "logand", "logior", "logxor", "sha256", "concat", "c"];

impl<'a> Gen<'a> {
    /// an expression big enough that the optimiser keeps a binding for it
    fn big_expr(&mut self, vars: &[String]) -> String {
        let op = *self.r.pick(&["+", "*", "logior", "logxor", "concat"]);
        let n = self.r.range(3, 5);
        let mut parts = Vec::new();
        for _ in 0..n {
            if self.r.chance(3, 5) && !vars.is_empty() {
                parts.push(self.r.pick(vars).clone());
            } else {
                parts.push(format!("{}", self.r.range(2, 3_000_000)));
            }
        }
        format!("({} {})", op, parts.join(" "))
    }

    /// a body with two or three *independent* repeated subexpressions, each used several
    /// times: several CSE candidates with the same insertion root
    fn cse_body(&mut self, vars: &[String]) -> String {
        let ncommon = self.r.range(2, 3) as usize;
        let mut commons: Vec<String> = Vec::new();
        for _ in 0..ncommon {
            let mut e = self.big_expr(vars);
            if self.r.chance(1, 3) {
                let inner = e.clone();
                e = format!("(sha256 {} {})", inner, self.atom(vars));
            }
            commons.push(e);
        }
        let nterms = self.r.range(4, 8) as usize;
        let mut terms: Vec<String> = Vec::new();
        for i in 0..nterms {
            let c = commons[if i < commons.len() * 2 { i % commons.len() } else { self.r.below(commons.len() as u64) as usize }].clone();
            let a = self.atom(vars);
            terms.push(match self.r.below(4) {
                0 => format!("(sha256 {} {})", c, a),
                1 => format!("(concat {} {})", c, a),
                2 => format!("(if {} {} {})", a, c, a),
                _ => c,
            });
        }
        let mut body = String::from("()");
        for t in terms.iter().rev() {
            body = format!("(c {} {})", t, body);
        }
        body
    }

    /// nested bindings, each used several times by later bindings and by the body: every
    /// binding becomes a synthetic helper whose inline/non-inline choice the optimiser makes,
    /// and the choices interact
    fn let_body(&mut self, vars: &[String], depth: i32) -> String {
        let nb = self.r.range(2, 3) as usize;
        let form = *self.r.pick(&["let", "let*", "assign"]);
        let mut scope: Vec<String> = vars.to_vec();
        let mut names: Vec<String> = Vec::new();
        let mut binds: Vec<String> = Vec::new();
        for _ in 0..nb {
            let n = self.fresh();
            let avail: Vec<String> = if form == "let" { vars.to_vec() } else { scope.clone() };
            let e = if self.r.chance(1, 2) {
                self.big_expr(&avail)
            } else {
                let a = self.r.pick(&avail).clone();
                let b = self.r.pick(&avail).clone();
                format!("({} {} {} {})", *self.r.pick(&["+", "*", "concat", "logxor"]), a, b, a)
            };
            if form == "assign" {
                binds.push(format!("{} {}", n, e));
            } else {
                binds.push(format!("({} {})", n, e));
            }
            scope.push(n.clone());
            names.push(n);
        }
        let inner = if depth > 0 && self.r.chance(2, 3) {
            self.let_body(&scope, depth - 1)
        } else {
            "()".to_string()
        };
        let mut body = inner;
        let uses = self.r.range(2, 5);
        for _ in 0..uses {
            let v = self.r.pick(&names).clone();
            let w = self.r.pick(&scope).clone();
            body = match self.r.below(3) {
                0 => format!("(c {} {})", v, body),
                1 => format!("(c (sha256 {} {}) {})", v, w, body),
                _ => format!("(c (+ {} {}) {})", v, w, body),
            };
        }
        if form == "assign" {
            format!("(assign {} {})", binds.join(" "), body)
        } else {
            format!("({} ({}) {})", form, binds.join(" "), body)
        }
    }

    fn fresh(&mut self) -> String {
        self.var_ctr += 1;
        // either a small name space (shadowing, cross-program name clashes) or a wide one
        format!("v{}", self.r.below(self.name_space))
    }

    fn atom(&mut self, vars: &[String]) -> String {
        let k = self.r.below(10);
        if !vars.is_empty() && k < 6 {
            return self.r.pick(vars).clone();
        }
        if !self.consts.is_empty() && k < 8 {
            return self.r.pick(&self.consts).clone();
        }
        self.r.pick(&LITS).to_string()
    }

    fn expr(&mut self, vars: &[String], depth: i32) -> String {
        self.budget -= 1;
        if depth <= 0 || self.budget <= 0 || self.r.chance(1, 4) {
            return self.atom(vars);
        }
        let k = self.r.below(100);
        if k < 28 {
            let op = *self.r.pick(&OPS2);
            let a = self.expr(vars, depth - 1);
            let b = self.expr(vars, depth - 1);
            return format!("({} {} {})", op, a, b);
        }
        if k < 42 && !self.funs.is_empty() {
            let i = self.r.below(self.funs.len() as u64) as usize;
            let (name, n) = (self.funs[i].name.clone(), self.funs[i].nargs);
            // sometimes only constant arguments: such a call can be folded away, and a
            // helper that is only ever called like that dies during code generation
            let constant = self.r.chance(1, 14);
            let args: Vec<String> = (0..n)
                .map(|_| {
                    if constant {
                        format!("{}", self.r.range(1, 40))
                    } else {
                        self.expr(vars, depth - 1)
                    }
                })
                .collect();
            return format!("({} {})", name, args.join(" "));
        }
        if k < 54 {
            let c = self.expr(vars, depth - 1);
            let t = self.expr(vars, depth - 1);
            let e = self.expr(vars, depth - 1);
            return format!("(if {} {} {})", c, t, e);
        }
        if k < 78 && self.modern {
            let nb = self.r.range(1, 3) as usize;
            let names: Vec<String> = (0..nb).map(|_| self.fresh()).collect();
            let form = *self.r.pick(&["let", "let*", "assign", "assign"]);
            let mut inner: Vec<String> = vars.to_vec();
            let mut binds = Vec::new();
            for n in names.iter() {
                let scope: Vec<String> = if form == "let" { vars.to_vec() } else { inner.clone() };
                let e = self.expr(&scope, depth - 1);
                if form == "assign" {
                    binds.push(format!("{} {}", n, e));
                } else {
                    binds.push(format!("({} {})", n, e));
                }
                inner.push(n.clone());
            }
            let body = self.expr(&inner, depth - 1);
            if form == "assign" {
                return format!("(assign {} {})", binds.join(" "), body);
            }
            return format!("({} ({}) {})", form, binds.join(" "), body);
        }
        if k < 84 && self.modern && self.allow_lambda && !vars.is_empty() {
            // lambda capturing some variables, applied at once
            let ncap = self.r.range(1, vars.len().min(2) as u64) as usize;
            let mut caps: Vec<String> = Vec::new();
            for _ in 0..ncap {
                let v = self.r.pick(vars).clone();
                if !caps.contains(&v) {
                    caps.push(v);
                }
            }
            let z = self.fresh();
            let mut scope = caps.clone();
            scope.push(z.clone());
            let body = self.expr(&scope, depth - 1);
            let arg = self.expr(vars, depth - 1);
            return format!(
                "(a (lambda ((& {}) {}) {}) (list {}))",
                caps.join(" "),
                z,
                body,
                arg
            );
        }
        // deliberately repeated subexpression: CSE material
        let e = self.expr(vars, depth - 1);
        let rest = self.expr(vars, depth - 1);
        match self.r.below(3) {
            0 => format!("(c {} (c {} {}))", e, e, rest),
            1 => format!("(+ {} (* {} {}))", e, e, rest),
            _ => format!("(if {} {} (c {} {}))", rest, e, e, e),
        }
    }
}

/// Generate one module.  `dialect` indexes SIGILS (0 = classic, no sigil).
pub fn program(r: &mut Rng, dialect: usize, size: u32) -> String {
    let dialect = dialect % SIGILS.len();
    let modern = dialect != 0;
    let strict = matches!(dialect, 2 | 4 | 5 | 6);
    // cl21/cl22 + lambda + let inside a defun sends the compiler into a (practically) endless
    // classic-optimizer run (incidental finding, see DESIGN.md); keep lambdas to the dialects
    // that use the modern optimizer
    let allow_lambda = modern && !matches!(dialect, 1 | 3) && r.chance(1, 2);
    let mut g = Gen {
        r,
        modern,
        strict,
        funs: Vec::new(),
        consts: Vec::new(),
        var_ctr: 0,
        budget: 0,
        allow_lambda,
        name_space: 40,
    };
    g.name_space = *g.r.pick(&[40u64, 1000, 1000]);
    // plain style: no constants or macros, just functions full of bindings (what the
    // optimiser's CSE and inlining decisions feed on)
    let plain = g.r.chance(2, 3);
    // for the optimising dialects: bodies with several independent CSE candidates
    let cse_rich = dialect >= 4 && g.r.chance(1, 3);
    // ... or with nests of bindings whose inlining decisions interact
    let let_rich = dialect >= 4 && !cse_rich && g.r.chance(1, 2);
    let mut forms: Vec<String> = Vec::new();
    let nconst = if plain { 0 } else { g.r.below(3) as usize };
    for i in 0..nconst {
        let name = format!("K{}", i);
        g.budget = 6;
        let e = if g.r.chance(1, 2) {
            g.r.pick(&LITS).to_string()
        } else {
            let a = g.r.pick(&LITS).to_string();
            let b = g.r.pick(&LITS).to_string();
            format!("({} {} {})", *g.r.pick(&["+", "*", "concat", "sha256", "logior"]), a, b)
        };
        let kw = if dialect >= 4 && g.r.chance(1, 2) {
            "defconst"
        } else {
            "defconstant"
        };
        forms.push(format!("({} {} {})", kw, name, e));
        g.consts.push(name);
    }
    let nmac = if !plain && g.r.chance(1, 3) { 1 } else { 0 };
    for i in 0..nmac {
        let name = format!("m{}", i);
        let kw = if g.strict { "defmac" } else { "defmacro" };
        let op = *g.r.pick(&["+", "c", "logior", "concat"]);
        forms.push(format!(
            "({} {} (A B) (qq ({} (unquote A) (unquote B))))",
            kw, name, op
        ));
        g.funs.push(Fun {
            name,
            nargs: 2,
            is_macro: true,
        });
    }
    let nf = if plain { g.r.range(1, 5) as usize } else { g.r.range(0, 5) as usize };
    for i in 0..nf {
        let n = g.r.range(1, 3) as usize;
        let args: Vec<String> = (0..n).map(|j| format!("a{}_{}", i, j)).collect();
        g.budget = size as i32 + 4;
        let depth = g.r.range(2, 5) as i32;
        let body = if cse_rich && g.r.chance(2, 3) {
            g.cse_body(&args)
        } else if let_rich && g.r.chance(3, 4) {
            let d = g.r.range(0, 2) as i32;
            g.let_body(&args, d)
        } else {
            g.expr(&args, depth)
        };
        let kw = *g.r.pick(&["defun", "defun", "defun-inline"]);
        forms.push(format!("({} f{} ({}) {})", kw, i, args.join(" "), body));
        g.funs.push(Fun {
            name: format!("f{}", i),
            nargs: n,
            is_macro: false,
        });
    }
    // two helpers with identical bodies under different names (they compile to the same
    // code, hence the same function hash in the symbol table)
    if g.r.chance(1, 6) {
        let body_fun: Vec<usize> = forms
            .iter()
            .enumerate()
            .filter(|(_, f)| f.starts_with("(defun f"))
            .map(|(i, _)| i)
            .collect();
        if !body_fun.is_empty() {
            let ix = *g.r.pick(&body_fun);
            let src = forms[ix].clone();
            // "(defun fK (aK_0 ...) body)" -> "(defun gK (...) body)"; the twin keeps the
            // argument names, which is enough for identical code
            if let Some(rest) = src.strip_prefix("(defun f") {
                let k: String = rest.chars().take_while(|c| c.is_ascii_digit()).collect();
                let twin = format!("(defun g{}{}", k, &rest[k.len()..]);
                forms.push(twin);
                if let Some(n) = g
                    .funs
                    .iter()
                    .find(|f| f.name == format!("f{}", k))
                    .map(|f| f.nargs)
                {
                    g.funs.push(Fun {
                        name: format!("g{}", k),
                        nargs: n,
                        is_macro: false,
                    });
                }
            }
        }
    }
    g.budget = size as i32 + 6;
    let depth = g.r.range(2, 5) as i32;
    let main = if cse_rich && g.r.chance(1, 3) {
        g.cse_body(&["X".to_string(), "Y".to_string()])
    } else {
        g.expr(&["X".to_string(), "Y".to_string()], depth)
    };
    // a helper that is only ever called with a constant
    let main = if g.r.chance(1, 6) {
        let k = g.r.range(2, 9);
        forms.push(format!("(defun hconst (N) (* N {}))", k));
        format!("(c (hconst {}) {})", g.r.range(1, 9), main)
    } else {
        main
    };
    let sig = SIGILS[dialect];
    let inc = if sig.is_empty() {
        String::new()
    } else {
        format!(" (include {})", sig)
    };
    format!("(mod (X Y){} {} {})", inc, forms.join(" "), main)
}

// ---------------------------------------------------------------------------------------
// tiny s-expression tree for structural shrinking
// ---------------------------------------------------------------------------------------

#[derive(Clone, Debug, PartialEq)]
pub enum Sx {
    Atom(String),
    List(Vec<Sx>),
}

pub fn parse(text: &str) -> Option<Sx> {
    let b = text.as_bytes();
    let mut i = 0;
    fn skip(b: &[u8], i: &mut usize) {
        while *i < b.len() {
            if b[*i].is_ascii_whitespace() {
                *i += 1;
            } else if b[*i] == b';' {
                while *i < b.len() && b[*i] != b'\n' {
                    *i += 1;
                }
            } else {
                break;
            }
        }
    }
    fn rd(b: &[u8], i: &mut usize, depth: u32) -> Option<Sx> {
        if depth > 400 {
            return None;
        }
        skip(b, i);
        if *i >= b.len() {
            return None;
        }
        if b[*i] == b'(' {
            *i += 1;
            let mut v = Vec::new();
            loop {
                skip(b, i);
                if *i >= b.len() {
                    return None;
                }
                if b[*i] == b')' {
                    *i += 1;
                    return Some(Sx::List(v));
                }
                v.push(rd(b, i, depth + 1)?);
            }
        }
        if b[*i] == b')' {
            return None;
        }
        let start = *i;
        if b[*i] == b'"' || b[*i] == b'\'' {
            let q = b[*i];
            *i += 1;
            while *i < b.len() && b[*i] != q {
                *i += 1;
            }
            if *i >= b.len() {
                return None;
            }
            *i += 1;
        } else {
            while *i < b.len() && !b[*i].is_ascii_whitespace() && b[*i] != b'(' && b[*i] != b')' {
                *i += 1;
            }
        }
        Some(Sx::Atom(String::from_utf8_lossy(&b[start..*i]).into_owned()))
    }
    let r = rd(b, &mut i, 0)?;
    skip(b, &mut i);
    if i != b.len() {
        return None; // only single-form sources are shrunk structurally
    }
    Some(r)
}

pub fn print(s: &Sx) -> String {
    match s {
        Sx::Atom(a) => a.clone(),
        Sx::List(v) => format!("({})", v.iter().map(print).collect::<Vec<_>>().join(" ")),
    }
}

fn size(s: &Sx) -> usize {
    match s {
        Sx::Atom(_) => 1,
        Sx::List(v) => 1 + v.iter().map(size).sum::<usize>(),
    }
}

fn get<'a>(s: &'a Sx, path: &[usize]) -> &'a Sx {
    let mut c = s;
    for p in path {
        if let Sx::List(v) = c {
            c = &v[*p];
        }
    }
    c
}

fn replace(s: &Sx, path: &[usize], with: Option<Sx>) -> Sx {
    if path.is_empty() {
        return with.unwrap_or(Sx::List(vec![]));
    }
    match s {
        Sx::List(v) => {
            let mut nv = Vec::new();
            for (i, c) in v.iter().enumerate() {
                if i == path[0] {
                    if path.len() == 1 {
                        if let Some(w) = &with {
                            nv.push(w.clone());
                        }
                    } else {
                        nv.push(replace(c, &path[1..], with.clone()));
                    }
                } else {
                    nv.push(c.clone());
                }
            }
            Sx::List(nv)
        }
        a => a.clone(),
    }
}

fn paths(s: &Sx, cur: &mut Vec<usize>, out: &mut Vec<(usize, Vec<usize>)>) {
    if let Sx::List(v) = s {
        for (i, c) in v.iter().enumerate() {
            cur.push(i);
            out.push((size(c), cur.clone()));
            paths(c, cur, out);
            cur.pop();
        }
    }
}

/// Structurally smaller variants of a program text, biggest reductions first.
pub fn shrink_text(text: &str, limit: usize) -> Vec<String> {
    let t = match parse(text) {
        Some(t) => t,
        None => return vec![],
    };
    let mut ps = Vec::new();
    paths(&t, &mut Vec::new(), &mut ps);
    ps.sort_by(|a, b| b.0.cmp(&a.0).then(a.1.cmp(&b.1)));
    let mut out: Vec<String> = Vec::new();
    let mut push = |s: Sx, out: &mut Vec<String>| {
        let p = print(&s);
        if p != text && !out.contains(&p) {
            out.push(p);
        }
    };
    for (sz, p) in ps.iter() {
        if out.len() >= limit {
            break;
        }
        // never touch the `mod` keyword, the argument list or the sigil include
        if p.len() == 1 && p[0] < 2 {
            continue;
        }
        let node = get(&t, p);
        if let Sx::List(v) = node {
            if v.len() == 2 && v[0] == Sx::Atom("include".to_string()) {
                if let Sx::Atom(n) = &v[1] {
                    if n.starts_with('*') {
                        continue;
                    }
                }
            }
        }
        // 1. delete the node (top-level helper forms, arguments, bindings ...)
        if p.len() == 1 || *sz > 1 {
            push(replace(&t, p, None), &mut out);
        }
        // 2. replace it by one of its children, or by a literal
        if let Sx::List(v) = node {
            for c in v.iter().skip(1) {
                if size(c) < *sz {
                    push(replace(&t, p, Some(c.clone())), &mut out);
                }
            }
            push(replace(&t, p, Some(Sx::Atom("1".to_string()))), &mut out);
        }
    }
    out
}

/// A near twin of a program: same parenthesis shape, one atom changed (an operator for
/// another operator or for the name of a helper, a literal for another literal).  Caches that
/// are keyed too coarsely (by position, by shape, by name) confuse a program with its twin.
pub fn near_twin(text: &str, r: &mut Rng) -> Option<String> {
    let t = parse(text)?;
    let mut ps = Vec::new();
    paths(&t, &mut Vec::new(), &mut ps);
    // helper names defined in the program
    let mut helpers: Vec<String> = Vec::new();
    if let Sx::List(items) = &t {
        for it in items.iter() {
            if let Sx::List(v) = it {
                if v.len() >= 3 {
                    if let (Sx::Atom(k), Sx::Atom(n)) = (&v[0], &v[1]) {
                        if k == "defun" || k == "defun-inline" {
                            helpers.push(n.clone());
                        }
                    }
                }
            }
        }
    }
    let cands: Vec<&Vec<usize>> = ps
        .iter()
        .filter(|(sz, p)| {
            *sz == 1 && p.len() >= 2 && !(p.len() == 2 && p[1] <= 1) && p[0] >= 2
        })
        .map(|(_, p)| p)
        .collect();
    if cands.is_empty() {
        return None;
    }
    // half of the time insist on the mutation that changes which global names a body
    // mentions: an operator in head position becomes a call of a helper
    let want_call = !helpers.is_empty() && r.chance(1, 2);
    for attempt in 0..40 {
        let p = *r.pick(&cands);
        if want_call && attempt < 30 {
            let is_head_op = *p.last().unwrap() == 0
                && matches!(get(&t, p), Sx::Atom(a) if OPS2.contains(&a.as_str()));
            if !is_head_op {
                continue;
            }
            let new = r.pick(&helpers).clone();
            return Some(print(&replace(&t, p, Some(Sx::Atom(new)))));
        }
        let a = match get(&t, p) {
            Sx::Atom(a) => a.clone(),
            _ => continue,
        };
        let head = *p.last().unwrap() == 0;
        let new = if head && OPS2.contains(&a.as_str()) {
            if !helpers.is_empty() && r.chance(1, 2) {
                r.pick(&helpers).clone()
            } else {
                r.pick(&OPS2).to_string()
            }
        } else if !head
            && (a.starts_with(|c: char| c.is_ascii_digit())
                || a.starts_with('-')
                || a.starts_with('"'))
        {
            r.pick(&LITS).to_string()
        } else if head && helpers.contains(&a) {
            r.pick(&OPS2).to_string()
        } else {
            continue;
        };
        if new == a {
            continue;
        }
        return Some(print(&replace(&t, p, Some(Sx::Atom(new)))));
    }
    None
}
