//! The decision tape: every schedule / fault / clock / parameter choice of a run is one
//! entry.  In generate mode entries come from the run's PRNG and are recorded; in replay
//! mode they are read back.  Choice 0 is always the benign option, so a minimiser can
//! simplify a trace by zeroing entries.  A replay tape that runs out, or holds a choice
//! that is out of range for the choice point it meets, yields 0.

use crate::prng::Rng;
use serde::{Deserialize, Serialize};

#[derive(Serialize, Deserialize, Clone, Debug, PartialEq)]
pub struct TapeEntry(pub String, pub u64, pub u64); // kind, n_options, choice

pub struct Tape {
    rng: Option<Rng>,
    replay: Vec<TapeEntry>,
    pos: usize,
    pub rec: Vec<TapeEntry>,
}

impl Tape {
    pub fn generate(seed: u64) -> Tape {
        Tape {
            rng: Some(Rng::new(seed)),
            replay: vec![],
            pos: 0,
            rec: vec![],
        }
    }
    pub fn replay(entries: Vec<TapeEntry>) -> Tape {
        Tape {
            rng: None,
            replay: entries,
            pos: 0,
            rec: vec![],
        }
    }
    fn next_replay(&mut self, n: u64) -> u64 {
        let c = match self.replay.get(self.pos) {
            Some(e) if e.2 < n => e.2,
            _ => 0,
        };
        self.pos += 1;
        c
    }
    /// weighted choice among weights.len() options; option 0 is the benign one.
    pub fn choose(&mut self, kind: &str, weights: &[u32]) -> usize {
        let n = weights.len() as u64;
        let c = match self.rng.as_mut() {
            Some(r) => r.weighted(weights) as u64,
            None => self.next_replay(n),
        };
        self.rec.push(TapeEntry(kind.to_string(), n, c));
        c as usize
    }
    /// uniform in 0..n
    pub fn below(&mut self, kind: &str, n: u64) -> u64 {
        let n = n.max(1);
        let c = match self.rng.as_mut() {
            Some(r) => r.below(n),
            None => self.next_replay(n),
        };
        self.rec.push(TapeEntry(kind.to_string(), n, c));
        c
    }
    /// true with probability num/den; false is the benign value.
    pub fn chance(&mut self, kind: &str, num: u32, den: u32) -> bool {
        if num == 0 {
            // still a choice point so that replay alignment does not depend on rates
            return self.choose(kind, &[1, 0]) == 1;
        }
        self.choose(kind, &[den.saturating_sub(num), num]) == 1
    }
}
