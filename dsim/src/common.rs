//! Types shared by all simulated properties.

use crate::prng::Rng;
use crate::sched::{Event, Violation};
use crate::tape::{Tape, TapeEntry};
use serde::de::DeserializeOwned;
use serde::{Deserialize, Serialize};
use std::collections::BTreeMap;

#[derive(Default, Clone, Debug, Serialize, Deserialize)]
pub struct Probes {
    /// faults that actually fired, by kind
    pub faults: BTreeMap<String, u64>,
    /// "this rare condition was reached" counters
    pub reach: BTreeMap<String, u64>,
}

impl Probes {
    pub fn hit(&mut self, k: &str) {
        *self.reach.entry(k.to_string()).or_insert(0) += 1;
    }
    pub fn hit_n(&mut self, k: &str, n: u64) {
        *self.reach.entry(k.to_string()).or_insert(0) += n;
    }
    pub fn fault(&mut self, k: &str) {
        *self.faults.entry(k.to_string()).or_insert(0) += 1;
    }
    pub fn merge(&mut self, o: &Probes) {
        for (k, v) in o.faults.iter() {
            *self.faults.entry(k.clone()).or_insert(0) += v;
        }
        for (k, v) in o.reach.iter() {
            *self.reach.entry(k.clone()).or_insert(0) += v;
        }
    }
}

#[derive(Serialize, Deserialize, Clone, Debug)]
pub struct RunReport {
    pub violation: Option<Violation>,
    pub events: Vec<Event>,
    pub tape: Vec<TapeEntry>,
    /// identity of the run for the distinct count (hash of the normalised event log, or a
    /// property specific key)
    pub distinct_key: u64,
    pub log_hash: u64,
    pub nontrivial: bool,
    pub truncated: bool,
    pub steps: u32,
    pub sim_ns: u64,
    pub probes: Probes,
    pub panics: Vec<(usize, String)>,
    /// property specific details shown in samples / replay files
    pub detail: serde_json::Value,
    /// secondary identities counted separately (C05: one per compared compile =
    /// hash of program text and perturbation vector)
    #[serde(default)]
    pub extra_keys: Vec<u64>,
}

#[derive(Serialize, Deserialize, Clone, Debug)]
pub struct ReplayFile {
    pub property: String,
    pub invariant: String,
    pub message: String,
    pub verif_seed: u64,
    pub run_index: u64,
    pub entropy_seed: u64,
    pub thorough: bool,
    pub minimised: bool,
    pub known_finding: Option<String>,
    /// run indices (of the same VERIF_SEED and tier) that must be executed in the same
    /// process before this run for the violation to show: state leaked from earlier runs.
    /// Empty for the usual self-contained replay.
    #[serde(default)]
    pub history: Vec<u64>,
    pub workload: serde_json::Value,
    pub tape: Vec<TapeEntry>,
    pub events: Vec<Event>,
    pub detail: serde_json::Value,
}

pub trait Prop {
    type W: Serialize + DeserializeOwned + Clone + std::fmt::Debug;
    fn id() -> &'static str;
    /// once per worker process, before any run (warm-up of lazy statics etc.)
    fn init_process() {}
    fn generate(rng: &mut Rng, thorough: bool, run_index: u64) -> Self::W;
    fn run(w: &Self::W, tape: &mut Tape, entropy_seed: u64) -> Result<RunReport, String>;
    /// strictly simpler variants of `w`, most aggressive first
    fn shrink(w: &Self::W) -> Vec<Self::W>;
    /// Some(finding id) if this failing run is an instance of a listed known finding
    fn known_finding(_w: &Self::W, _rep: &RunReport, _known: &[KnownFinding]) -> Option<String> {
        None
    }
    fn runs_for_tier(thorough: bool) -> u64;
    /// how many run indices the thorough tier re-executes in three process layouts to prove
    /// that a run is a function of (seed, index) alone
    fn determinism_runs() -> u64 {
        500
    }
    fn rule() -> &'static str;
    fn assumptions() -> Vec<String>;
    fn real_vs_stub() -> serde_json::Value;
    fn bounds(thorough: bool) -> serde_json::Value;
}

#[derive(Serialize, Deserialize, Clone, Debug)]
pub struct KnownFinding {
    pub property: String,
    pub id: String,
    /// "open" findings are matched and reported as KNOWN-FINDING; "fixed" entries are
    /// documentation only and suppress nothing
    pub status: String,
    pub description: String,
    #[serde(default)]
    pub matcher: serde_json::Value,
}

pub fn load_known(verif_dir: &str) -> Vec<KnownFinding> {
    let p = format!("{}/known_findings.json", verif_dir);
    match std::fs::read_to_string(&p) {
        Ok(s) => {
            let v: serde_json::Value = serde_json::from_str(&s).unwrap_or(serde_json::Value::Null);
            let arr = v.get("findings").cloned().unwrap_or(serde_json::Value::Null);
            serde_json::from_value(arr).unwrap_or_default()
        }
        Err(_) => vec![],
    }
}
