//! Actors as forked child processes.
//!
//! A simulated process that is a thread shares its pid and every static with its peers.
//! Here each actor is a real child process of the worker (forked when only the controller
//! thread exists, so the fork is safe): it has its own copy of every static and of every
//! thread-local, `getpid()` is whatever the run decides (all equal = separate PID
//! namespaces sharing a directory), and a crash decision is a real `_exit` — no destructor
//! runs, the kernel closes the descriptors.  The handshake is the same as for threads, but
//! through a shared anonymous mapping and futexes; the controller loop, the policies and
//! the event log are shared with the thread-backed mode.

use crate::sched::{
    control_loop, hash_events, ActorSpec, Arena, LoopOutcome, Policy, RunError, RunOutcome,
};
use crate::seam::{
    self, action_encode, futex_wait, futex_wake, Actor, Decision, Op, ProcLink, ShmHeader, ShmSlot,
    Watchdog, World, OP_KINDS, ST_FINISHED, ST_GRANTED, ST_PENDING, ST_RUNNING,
};
use crate::tape::Tape;
use std::cell::RefCell;
use std::panic::AssertUnwindSafe;
use std::sync::atomic::Ordering;
use std::sync::Arc;
use std::time::{Duration, Instant};

pub struct ProcArena {
    hdr: *mut ShmHeader,
    slots: *mut ShmSlot,
    n: usize,
    pids: Vec<libc::pid_t>,
    reaped: RefCell<Vec<bool>>,
    world: Arc<World>,
    map_len: usize,
}

impl ProcArena {
    fn slot(&self, i: usize) -> &mut ShmSlot {
        unsafe { &mut *self.slots.add(i) }
    }

    /// a child that died without telling (abort, stack overflow) counts as finished
    fn reap_dead(&self) {
        let mut reaped = self.reaped.borrow_mut();
        for i in 0..self.n {
            if reaped[i] {
                continue;
            }
            let mut status = 0;
            let r = unsafe { libc::waitpid(self.pids[i], &mut status, libc::WNOHANG) };
            if r == self.pids[i] {
                reaped[i] = true;
                let s = self.slot(i);
                if s.state.load(Ordering::SeqCst) != ST_FINISHED {
                    s.panicked = 1;
                    s.state.store(ST_FINISHED, Ordering::SeqCst);
                }
            }
        }
    }

    fn reap_all(&self) {
        let mut reaped = self.reaped.borrow_mut();
        for i in 0..self.n {
            if !reaped[i] {
                let mut status = 0;
                unsafe { libc::waitpid(self.pids[i], &mut status, 0) };
                reaped[i] = true;
            }
        }
    }
}

impl Drop for ProcArena {
    fn drop(&mut self) {
        // never leave children behind
        {
            let reaped = self.reaped.borrow();
            for i in 0..self.n {
                if !reaped[i] {
                    unsafe { libc::kill(self.pids[i], libc::SIGKILL) };
                }
            }
        }
        self.reap_all();
        let _ = self.map_len; // the region is reused by the next run
    }
}

impl Arena for ProcArena {
    fn wait_quiescent(&self, timeout: Duration) -> Result<(), Watchdog> {
        let deadline = Instant::now() + timeout;
        loop {
            let word = unsafe { (*self.hdr).ctl_word.load(Ordering::SeqCst) };
            let busy = (0..self.n).any(|i| {
                let st = self.slot(i).state.load(Ordering::SeqCst);
                st == ST_RUNNING || st == ST_GRANTED
            });
            if !busy {
                return Ok(());
            }
            self.reap_dead();
            if Instant::now() >= deadline {
                return Err(Watchdog);
            }
            unsafe { futex_wait(&(*self.hdr).ctl_word, word, Some(20)) };
        }
    }

    fn pending(&self) -> Vec<(usize, Op)> {
        let mut v = Vec::new();
        for i in 0..self.n {
            let s = self.slot(i);
            if s.state.load(Ordering::SeqCst) == ST_PENDING {
                v.push((
                    i,
                    Op {
                        kind: OP_KINDS[(s.kind as usize).min(OP_KINDS.len() - 1)],
                        path: String::from_utf8_lossy(&s.path[..s.path_len as usize]).into_owned(),
                        path2: String::from_utf8_lossy(&s.path2[..s.path2_len as usize])
                            .into_owned(),
                        fd: s.fd,
                        len: s.len as usize,
                        flags: s.flags,
                        prev_ret: s.prev_ret,
                        prev_errno: s.prev_errno,
                    },
                ));
            }
        }
        v
    }

    fn finished(&self) -> Vec<(usize, i64, i32)> {
        (0..self.n)
            .filter(|i| self.slot(*i).state.load(Ordering::SeqCst) == ST_FINISHED)
            .map(|i| (i, self.slot(i).last_ret, self.slot(i).last_errno))
            .collect()
    }

    fn grant(&self, id: usize, d: Decision) {
        let s = self.slot(id);
        let (tag, arg) = action_encode(d.action);
        s.act_tag = tag;
        s.act_arg = arg;
        s.next_preempt = d.next_preempt;
        unsafe {
            (*self.hdr)
                .clock_ns
                .store(self.world.now_ns(), Ordering::SeqCst);
            s.state.store(ST_GRANTED, Ordering::SeqCst);
            futex_wake(&s.state, 1);
        }
    }
}

fn child_main(
    id: usize,
    spec: ActorSpec,
    hdr: *mut ShmHeader,
    slot: *mut ShmSlot,
    stamp_mtime: bool,
    clock_ns: u64,
    fake_pid: i32,
) -> ! {
    // never outlive the controller
    unsafe { libc::prctl(libc::PR_SET_PDEATHSIG, libc::SIGKILL) };
    // own little world: only the clock and the mtime switch are used on this side
    let world = seam::new_world(1, stamp_mtime, clock_ns);
    let ActorSpec {
        entropy_seed,
        skew_ns,
        body,
        ..
    } = spec;
    let actor = Actor::new_proc(
        id,
        world,
        entropy_seed,
        skew_ns,
        ProcLink {
            hdr,
            slot,
            fake_pid,
        },
    );
    unsafe { actor.install() };
    actor.boundary("start", "");
    let r = std::panic::catch_unwind(AssertUnwindSafe(|| body(&actor)));
    if r.is_err() {
        unsafe { (*slot).panicked = 1 };
    }
    actor.finish();
    unsafe { libc::_exit(0) }
}

/// Like `sched::run`, with every actor in a child process of its own.
/// Must be called while this process has no other threads.
#[allow(clippy::too_many_arguments)]
pub fn run_procs<P: Policy>(
    world: Arc<World>,
    specs: Vec<ActorSpec>,
    tape: &mut Tape,
    policy: &mut P,
    max_steps: u32,
    watchdog: Duration,
    fake_pids: &[i32],
) -> Result<RunOutcome, RunError> {
    let n = specs.len();
    // one shared region per worker process, reused by every run (creating a shared
    // anonymous mapping per run turned out to serialise the workers in the kernel)
    const MAX_ACTORS: usize = 16;
    static REGION: std::sync::atomic::AtomicUsize = std::sync::atomic::AtomicUsize::new(0);
    let map_len = std::mem::size_of::<ShmHeader>() + 64 + MAX_ACTORS * std::mem::size_of::<ShmSlot>();
    if n > MAX_ACTORS {
        return Err(RunError::Watchdog("too many actors for the shared region".to_string()));
    }
    let mut base = REGION.load(Ordering::SeqCst) as *mut libc::c_void;
    if base.is_null() {
        base = unsafe {
            libc::mmap(
                std::ptr::null_mut(),
                map_len,
                libc::PROT_READ | libc::PROT_WRITE,
                libc::MAP_SHARED | libc::MAP_ANONYMOUS,
                -1,
                0,
            )
        };
        if base == libc::MAP_FAILED {
            return Err(RunError::Watchdog("mmap of the shared page failed".to_string()));
        }
        REGION.store(base as usize, Ordering::SeqCst);
    }
    let hdr = base as *mut ShmHeader;
    // slots start at a 64-byte boundary after the header
    let slots = unsafe { (base as *mut u8).add(64) } as *mut ShmSlot;
    unsafe {
        std::ptr::write_bytes(base as *mut u8, 0, map_len);
        (*hdr).clock_ns.store(world.now_ns(), Ordering::SeqCst);
    }
    let mut pids = Vec::new();
    for (id, spec) in specs.into_iter().enumerate() {
        let slot = unsafe { slots.add(id) };
        let fake = *fake_pids.get(id).unwrap_or(&0);
        let pid = unsafe { libc::fork() };
        if pid == 0 {
            child_main(
                id,
                spec,
                hdr,
                slot,
                world.stamp_mtime,
                world.now_ns(),
                fake,
            );
        }
        if pid < 0 {
            for p in pids.iter() {
                unsafe { libc::kill(*p, libc::SIGKILL) };
            }
            return Err(RunError::Watchdog("fork failed".to_string()));
        }
        pids.push(pid);
    }
    let arena = ProcArena {
        hdr,
        slots,
        n,
        pids,
        reaped: RefCell::new(vec![false; n]),
        world: world.clone(),
        map_len,
    };
    let lo = control_loop(&arena, &world, n, tape, policy, max_steps, watchdog)?;
    let panics: Vec<(usize, String)> = (0..n)
        .filter(|i| arena.slot(*i).panicked != 0)
        .map(|i| (i, "child process panicked or died by itself".to_string()))
        .collect();
    arena.reap_all();
    drop(arena);
    let LoopOutcome {
        events,
        mut violation,
        truncated,
        switches,
    } = lo;
    if violation.is_none() && !truncated {
        if let Err(v) = policy.finish(&world, &events) {
            violation = Some(v);
        }
    }
    let log_hash = hash_events(&events);
    Ok(RunOutcome {
        events,
        violation,
        truncated,
        panics,
        log_hash,
        switches,
    })
}
