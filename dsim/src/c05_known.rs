//! Attribution of C05 violations to listed known findings — by mechanism, never by a list of
//! inputs (another VERIF_SEED generates other programs that hit the same defect).

use crate::c05::Workload;
use crate::common::{KnownFinding, RunReport};
use clvmr::allocator::{Allocator, NodePtr, SExp};
use clvmr::serde::node_from_bytes;

fn unhex(s: &str) -> Option<Vec<u8>> {
    if s.len() % 2 != 0 {
        return None;
    }
    (0..s.len() / 2)
        .map(|i| u8::from_str_radix(&s[2 * i..2 * i + 2], 16).ok())
        .collect()
}

/// Serialise a tree with the digits after every `_$_` inside atoms erased; the flag tells
/// whether any atom carried a generated name.
fn normalise(a: &Allocator, n: NodePtr, out: &mut Vec<u8>, saw: &mut bool, depth: u32) -> bool {
    if depth > 20_000 {
        return false;
    }
    match a.sexp(n) {
        SExp::Pair(l, r) => {
            out.push(b'(');
            if !normalise(a, l, out, saw, depth + 1) {
                return false;
            }
            out.push(b'.');
            if !normalise(a, r, out, saw, depth + 1) {
                return false;
            }
            out.push(b')');
            true
        }
        SExp::Atom => {
            let atom = a.atom(n);
            let b: &[u8] = atom.as_ref();
            let mut i = 0;
            let mut norm: Vec<u8> = Vec::with_capacity(b.len());
            while i < b.len() {
                if b[i..].starts_with(b"_$_") && i + 3 < b.len() && b[i + 3].is_ascii_digit() {
                    *saw = true;
                    norm.extend_from_slice(b"_$_");
                    i += 3;
                    while i < b.len() && b[i].is_ascii_digit() {
                        i += 1;
                    }
                } else {
                    norm.push(b[i]);
                    i += 1;
                }
            }
            out.extend_from_slice(format!("[{}:", norm.len()).as_bytes());
            out.extend_from_slice(&norm);
            out.push(b']');
            true
        }
    }
}

fn norm_hex(hex: &str) -> Option<(Vec<u8>, bool)> {
    let bytes = unhex(hex)?;
    if bytes.is_empty() {
        return None;
    }
    let mut a = Allocator::new();
    let n = node_from_bytes(&mut a, &bytes).ok()?;
    let mut out = Vec::new();
    let mut saw = false;
    if !normalise(&a, n, &mut out, &mut saw, 0) {
        return None;
    }
    Some((out, saw))
}

pub const CL22_NAME_LEAK: &str = "C05-cl22-generated-name-in-emitted-code";

pub fn classify(_w: &Workload, rep: &RunReport, known: &[KnownFinding]) -> Option<String> {
    let v = rep.violation.as_ref()?;
    let d = &rep.detail;
    let program = d.get("program")?.as_str()?;
    // finding: with *standard-cl-22* the frontend optimiser leaves a let-bound (renamed)
    // variable unresolved and the code generator quotes its generated name into the output.
    // A case belongs to it iff the sigil is cl22, the bytes differ, and they become equal once
    // the digits after `_$_` inside emitted atoms are erased.
    if known
        .iter()
        .any(|k| k.property == "C05" && k.id == CL22_NAME_LEAK && k.status == "open")
        && v.invariant == "C05-bytes"
        && program.contains("(include *standard-cl-22*)")
    {
        let r = d.get("reference")?.get("hex")?.as_str()?;
        let o = d.get("observed")?.get("hex")?.as_str()?;
        if let (Some((rn, rs)), Some((on, os))) = (norm_hex(r), norm_hex(o)) {
            if rn == on && rs && os {
                return Some(format!(
                    "{}: cl22 frontend optimiser emits a let-bound variable's generated name as a quoted atom",
                    CL22_NAME_LEAK
                ));
            }
        }
    }
    None
}
