//! C18 — the dependency listing names every file a compilation reads.
//!
//! Storage seam only: one actor first asks the real `gather_dependencies` for the listing,
//! then compiles the same program with the same search path through a real entry point.
//! Every `open`/`read` of the compile phase is observed at the libc seam (the classic compiler
//! reads includes with `fs::read*` directly, so a recording `CompilerOpts` would miss them).
//! The configuration space is the disk layout: include graphs, the same name in several
//! search directories, and static disk faults (unreadable file, directory or dangling symlink
//! where a file is expected).

use crate::common::{KnownFinding, Probes, Prop, RunReport};
use crate::prng::{fnv1a, mix, Rng, FNV_INIT};
use crate::sched::{self, ActorSpec, Event, Policy, StepCtx, Violation};
use crate::seam::{self, Action, Actor, Decision, Op, OpKind, World};
use crate::tape::Tape;
use serde::{Deserialize, Serialize};
use std::collections::{BTreeSet, HashMap};
use std::fs;
use std::os::unix::fs::MetadataExt;
use std::rc::Rc;
use std::sync::Arc;
use std::time::Duration;

pub const DIR: &str = "r";
pub const MAIN: &str = "r/main.clsp";
pub const SIGILS: [&str; 7] = [
    "",
    "*standard-cl-21*",
    "*strict-cl-21*",
    "*standard-cl-22*",
    "*standard-cl-23*",
    "*standard-cl-23.1*",
    "*standard-cl-24*",
];

/// kind of a copy of a logical file in one directory
pub const REAL: u8 = 0;
pub const DIR_DECOY: u8 = 1;
pub const DANGLING: u8 = 2;
pub const DENIED: u8 = 3;
pub const EMPTY: u8 = 4;

#[derive(Serialize, Deserialize, Clone, Debug, PartialEq)]
pub enum Ref {
    Inc { i: usize, quoted: bool },
    Embed { d: usize },
}

#[derive(Serialize, Deserialize, Clone, Debug)]
pub struct Inc {
    pub name: String,
    /// (directory id, copy kind)
    pub copies: Vec<(u8, u8)>,
    pub refs: Vec<Ref>,
}

#[derive(Serialize, Deserialize, Clone, Debug)]
pub struct Data {
    pub name: String,
    /// 0 bin, 1 hex, 2 sexp
    pub kind: u8,
    pub copies: Vec<(u8, u8)>,
}

#[derive(Serialize, Deserialize, Clone, Debug)]
pub struct Workload {
    pub sigil: u8,
    pub ndirs: u8,
    /// directory ids in search-path order
    pub search: Vec<u8>,
    pub incs: Vec<Inc>,
    pub datas: Vec<Data>,
    pub main_refs: Vec<Ref>,
    /// 0: compile_clvm_text, classic_with_opts = true (Python / JS entry);
    /// 1: compile_clvm_text, classic_with_opts = false; 2: compile_clvm file to file;
    /// 3: listing and compile both through cmds::launch_tool (`run -M ...`, `run ...`);
    /// 4: the Python binding itself, `chialisp.check_dependencies` and
    /// `chialisp.compile_clvm` called in an embedded interpreter (builds without the
    /// binding run entry 0 instead)
    pub entry: u8,
    /// per-mille rate of transient read faults; runs with a non-zero rate are not judged
    pub transient_pm: u16,
    /// include files that are (also) included from inside a nested `(mod ...)` expression
    /// in the main body
    #[serde(default)]
    pub nested_mod: Vec<usize>,
    /// other places an include can hide: (kind, include index); kind 1 = inside the helper
    /// of a nested mod, inside a second nested mod; 2 = inside an old-style defmacro body;
    /// 3 = inside a nested mod in a helper that nothing calls; 4 = inside the quasi-quoted
    /// module an old-style macro expands to
    #[serde(default)]
    pub hidden: Vec<(u8, usize)>,
    /// search directories that are reached through a symlinked directory and `..`
    #[serde(default)]
    pub symlinked: Vec<u8>,
    /// include files (by index) that also exist, with other contents, in an overlay directory
    /// served by a caller-supplied CompilerOpts (only used with entry 0, where listing and
    /// compile are both given that CompilerOpts)
    #[serde(default)]
    pub overlay: Vec<usize>,
    /// search directories that are given by a relative name starting with `*`
    /// (`*v<d>*`, next to the run directory), like the dialect pseudo-files' names
    #[serde(default)]
    pub starred: Vec<u8>,
    /// how each search directory is spelt on the search path (indexed by directory id):
    /// 0 plainly, 1 with a trailing slash, 2 as an absolute path, 3 with a leading "./"
    #[serde(default)]
    pub dir_forms: Vec<u8>,
    /// include files (by index) of which a different copy lies next to the main program,
    /// where an entry point that also searches the program's own directory would find it
    #[serde(default)]
    pub beside_main: Vec<usize>,
    /// another layout whose listing and compile run first, on the same thread of the same
    /// process, without being judged: whatever they leave behind (a cache of resolved names,
    /// of file contents) is history for the judged pair.  Both layouts use the same paths.
    #[serde(default)]
    pub prelude: Option<Box<Workload>>,
    /// the search path has an empty-string entry (what `os.path.dirname("main.clsp")` gives a
    /// build script) at this position: it names the current directory, where the include
    /// files `.1` and data files `.2` have copies of their own
    #[serde(default)]
    pub empty_entry: Option<(u8, Vec<usize>, Vec<usize>)>,
}

/// the search path as handed to the listing and to the compile
fn search_list(w: &Workload) -> Vec<String> {
    let mut search: Vec<String> = w.search.iter().map(|d| search_dir(w, *d)).collect();
    if let Some((at, _, _)) = &w.empty_entry {
        search.insert((*at as usize).min(search.len()), String::new());
    }
    search
}

/// where the files of search directory `d` really live
fn real_dir(w: &Workload, d: u8) -> String {
    if w.starred.contains(&d) {
        format!("*v{}*", d)
    } else if w.symlinked.contains(&d) {
        format!("{}/x{}", DIR, d)
    } else {
        format!("{}/d{}", DIR, d)
    }
}

/// how search directory `d` is spelt on the search path: either plainly, or as
/// `r/d<d>/lnk/..` where `lnk` is a symlink to `r/x<d>/sub` - the kernel resolves that to
/// `r/x<d>`, a textual clean-up of the name to `r/d<d>`, which is another directory
fn search_dir(w: &Workload, d: u8) -> String {
    let plain = plain_dir(w, d);
    if w.starred.contains(&d) {
        return plain;
    }
    match w.dir_forms.get(d as usize).copied().unwrap_or(0) {
        1 => format!("{}/", plain),
        2 => format!("{}/{}", seam::root(), plain),
        3 => format!("./{}", plain),
        _ => plain,
    }
}

/// the spelling the seam reports for files under search directory `d` (its normal form)
fn plain_dir(w: &Workload, d: u8) -> String {
    if w.starred.contains(&d) {
        format!("*v{}*", d)
    } else if w.symlinked.contains(&d) {
        format!("{}/d{}/lnk/..", DIR, d)
    } else {
        format!("{}/d{}", DIR, d)
    }
}

const KINDS: [&str; 3] = ["bin", "hex", "sexp"];

fn render_ref(w: &Workload, owner: usize, k: usize, r: &Ref) -> String {
    match r {
        Ref::Inc { i, quoted } => {
            if *quoted {
                format!("(include \"{}\")", w.incs[*i].name)
            } else {
                format!("(include {})", w.incs[*i].name)
            }
        }
        Ref::Embed { d } => format!(
            "(embed-file E{}_{} {} {})",
            owner, k, KINDS[w.datas[*d].kind as usize % 3], w.datas[*d].name
        ),
    }
}

pub fn render_inc(w: &Workload, i: usize, dir: u8) -> String {
    let inc = &w.incs[i];
    let mut s = String::from("(\n");
    s.push_str(&format!("  (defconstant K{} {})\n", i, 100 * (i as u32 + 1) + dir as u32));
    for (k, r) in inc.refs.iter().enumerate() {
        s.push_str("  ");
        s.push_str(&render_ref(w, i + 1, k, r));
        s.push('\n');
    }
    s.push_str(")\n");
    s
}

pub fn render_main(w: &Workload) -> String {
    let mut s = String::from("(mod (X)\n");
    let sig = SIGILS[w.sigil as usize % SIGILS.len()];
    if !sig.is_empty() {
        s.push_str(&format!("  (include {})\n", sig));
    }
    let mut uses: Vec<String> = Vec::new();
    for (k, r) in w.main_refs.iter().enumerate() {
        s.push_str("  ");
        s.push_str(&render_ref(w, 0, k, r));
        s.push('\n');
        match r {
            Ref::Inc { i, .. } => uses.push(format!("K{}", i)),
            Ref::Embed { .. } => uses.push(format!("E0_{}", k)),
        }
    }
    for i in w.nested_mod.iter() {
        if let Some(inc) = w.incs.get(*i) {
            uses.push(format!("(mod (Z) (include {}) (c Z K{}))", inc.name, i));
        }
    }
    for (kind, i) in w.hidden.iter() {
        if let Some(inc) = w.incs.get(*i) {
            match kind {
                1 => uses.push(format!(
                    "(mod (Z) (defun deep{i} (W) (a (mod (V) (include {n}) (c V K{i})) (c W ()))) (deep{i} Z))",
                    i = i,
                    n = inc.name
                )),
                2 => {
                    s.push_str(&format!(
                        "  (defmacro addk{i} (A) (include {n}) (list \"+\" A K{i}))\n",
                        i = i,
                        n = inc.name
                    ));
                    uses.push(format!("(addk{} X)", i));
                }
                4 => {
                    // an old-style macro whose *expansion* is a module with an include:
                    // the include only exists once the macro has been expanded
                    s.push_str(&format!(
                        "  (defmacro mk{i} () (qq (mod (Y) (include {n}) (c Y K{i}))))\n",
                        i = i,
                        n = inc.name
                    ));
                    uses.push(format!("(a (mk{}) (list X))", i));
                }
                _ => {
                    s.push_str(&format!(
                        "  (defun unused{i} (Q) (mod (V) (include {n}) (c V K{i})))\n",
                        i = i,
                        n = inc.name
                    ));
                }
            }
        }
    }
    let mut body = String::from("()");
    for u in uses.iter().rev() {
        body = format!("(c {} {})", u, body);
    }
    s.push_str(&format!("  (c X {})\n)\n", body));
    s
}

fn data_content(kind: u8, dir: u8) -> Vec<u8> {
    match kind % 3 {
        0 => format!("bin-data-{}", dir).into_bytes(),
        1 => format!("8361623{}", dir % 10).into_bytes(),
        _ => format!("(1 2 {})", dir).into_bytes(),
    }
}

fn place(path: &str, kind: u8, content: &[u8]) {
    if let Some(p) = std::path::Path::new(path).parent() {
        let _ = fs::create_dir_all(p);
    }
    match kind {
        DIR_DECOY => {
            let _ = fs::create_dir_all(path);
        }
        DANGLING => {
            let _ = std::os::unix::fs::symlink("no-such-target", path);
        }
        EMPTY => {
            let _ = fs::write(path, b"");
        }
        _ => {
            let _ = fs::write(path, content);
        }
    }
}

pub fn setup_dir(w: &Workload) {
    let _ = fs::remove_dir_all(DIR);
    fs::create_dir_all(DIR).expect("mkdir run dir");
    for d in 0..8u8 {
        let _ = fs::remove_dir_all(format!("*v{}*", d));
    }
    // plain files in the current directory are copies an earlier layout placed there
    if let Ok(rd) = fs::read_dir(".") {
        for e in rd.flatten() {
            if e.file_type().map(|t| !t.is_dir()).unwrap_or(false) {
                let _ = fs::remove_file(e.path());
            }
        }
    }
    if let Some((_, incs, datas)) = &w.empty_entry {
        for i in incs.iter() {
            if let Some(inc) = w.incs.get(*i) {
                if !inc.name.contains('/') {
                    place(&inc.name, REAL, render_inc(w, *i, 66).as_bytes());
                }
            }
        }
        for d in datas.iter() {
            if let Some(dt) = w.datas.get(*d) {
                if !dt.name.contains('/') {
                    place(&dt.name, REAL, &data_content(dt.kind, 66));
                }
            }
        }
    }
    for d in 0..w.ndirs {
        fs::create_dir_all(format!("{}/d{}", DIR, d)).unwrap();
        if w.starred.contains(&d) {
            fs::create_dir_all(format!("*v{}*", d)).unwrap();
        } else if w.symlinked.contains(&d) {
            fs::create_dir_all(format!("{}/x{}/sub", DIR, d)).unwrap();
            let _ = std::os::unix::fs::symlink(
                format!("../x{}/sub", d),
                format!("{}/d{}/lnk", DIR, d),
            );
        }
    }
    for (i, inc) in w.incs.iter().enumerate() {
        for (d, k) in inc.copies.iter() {
            let p = format!("{}/{}", real_dir(w, *d), inc.name);
            place(&p, *k, render_inc(w, i, *d).as_bytes());
            if w.symlinked.contains(d) && !w.starred.contains(d) {
                // a stale copy where a textually cleaned-up name would point
                let stale = format!("{}/d{}/{}", DIR, d, inc.name);
                place(&stale, REAL, render_inc(w, i, *d + 40).as_bytes());
            }
        }
    }
    for dt in w.datas.iter() {
        for (d, k) in dt.copies.iter() {
            let p = format!("{}/{}", real_dir(w, *d), dt.name);
            place(&p, *k, &data_content(dt.kind, *d));
        }
    }
    for i in w.beside_main.iter() {
        if let Some(inc) = w.incs.get(*i) {
            let p = format!("{}/{}", DIR, inc.name);
            place(&p, REAL, render_inc(w, *i, 55).as_bytes());
        }
    }
    for i in w.overlay.iter() {
        if let Some(inc) = w.incs.get(*i) {
            let p = format!("{}/{}", OVERLAY, inc.name);
            place(&p, REAL, render_inc(w, *i, 77).as_bytes());
        }
    }
    fs::write(MAIN, render_main(w)).unwrap();
}

/// lexical normal form of a path below a real directory: no ".", no "x/.." (the names of
/// the pools never step through a symlink)
fn tidy(dir: &str, name: &str) -> String {
    let mut out: Vec<&str> = Vec::new();
    for c in name.split('/') {
        match c {
            "" | "." => {}
            ".." if out.last().map(|l| *l != "..").unwrap_or(false) => {
                out.pop();
            }
            c => out.push(c),
        }
    }
    format!("{}/{}", dir, out.join("/"))
}

fn denied_paths(w: &Workload) -> Vec<String> {
    let mut v = Vec::new();
    for inc in w.incs.iter() {
        for (d, k) in inc.copies.iter() {
            if *k == DENIED {
                v.push(tidy(&plain_dir(w, *d), &inc.name));
            }
        }
    }
    for dt in w.datas.iter() {
        for (d, k) in dt.copies.iter() {
            if *k == DENIED {
                v.push(tidy(&plain_dir(w, *d), &dt.name));
            }
        }
    }
    v
}

// ---------------------------------------------------------------------------------------
// known findings
// ---------------------------------------------------------------------------------------

pub const MACRO_EXPANSION_INCLUDE: &str = "C18-include-inside-old-style-macro-expansion";

/// A violating run belongs to the listed finding iff the file that was read without being
/// listed is exactly the include that this layout places inside the quasi-quoted module an
/// old-style `defmacro` expands to (hidden kind 4), and the program refers to that include
/// nowhere else.  Anything else that is read and not listed is still a violation.
pub fn classify_known(w: &Workload, rep: &RunReport, known: &[KnownFinding]) -> Option<String> {
    let v = rep.violation.as_ref()?;
    if v.invariant != "C18.b-read-but-not-listed" {
        return None;
    }
    if !known
        .iter()
        .any(|k| k.property == "C18" && k.id == MACRO_EXPANSION_INCLUDE && k.status == "open")
    {
        return None;
    }
    // the compile read "<path>", which ...
    let path = v.message.split('"').nth(1)?;
    for (kind, i) in w.hidden.iter() {
        if *kind != 4 {
            continue;
        }
        let inc = w.incs.get(*i)?;
        let elsewhere = w
            .main_refs
            .iter()
            .any(|r| matches!(r, Ref::Inc { i: j, .. } if j == i))
            || w.nested_mod.contains(i)
            || w.hidden.iter().any(|(k2, j)| *k2 != 4 && j == i)
            || w
                .incs
                .iter()
                .any(|o| o.refs.iter().any(|r| matches!(r, Ref::Inc { i: j, .. } if j == i)));
        if elsewhere {
            continue;
        }
        let hit = w
            .search
            .iter()
            .any(|d| tidy(&plain_dir(w, *d), &inc.name) == path || tidy(&real_dir(w, *d), &inc.name) == path);
        if hit {
            return Some(format!(
                "{}: an include inside the module that an old-style defmacro expands to is read by the compile and not listed",
                MACRO_EXPANSION_INCLUDE
            ));
        }
    }
    None
}

// ---------------------------------------------------------------------------------------
// generation
// ---------------------------------------------------------------------------------------

fn gen_copies(rng: &mut Rng, ndirs: u8, allow_empty: bool) -> Vec<(u8, u8)> {
    let mut dirs: Vec<u8> = (0..ndirs).collect();
    // random subset, at least one real copy
    let mut out: Vec<(u8, u8)> = Vec::new();
    let n = 1 + rng.below(ndirs as u64) as usize;
    for _ in 0..n {
        let k = rng.below(dirs.len() as u64) as usize;
        let d = dirs.remove(k);
        let kind = match rng.below(12) {
            0 => DIR_DECOY,
            1 => DANGLING,
            2 => DENIED,
            3 if allow_empty => EMPTY,
            _ => REAL,
        };
        out.push((d, kind));
    }
    if !out.iter().any(|(_, k)| *k == REAL) {
        out[0].1 = REAL;
    }
    out.sort();
    out
}

pub fn generate(rng: &mut Rng, thorough: bool) -> Workload {
    let mut w = generate_layout(rng, thorough);
    if rng.chance(1, 4) {
        w.prelude = Some(Box::new(generate_layout(rng, thorough)));
    }
    w
}

fn generate_layout(rng: &mut Rng, thorough: bool) -> Workload {
    let ndirs = rng.range(1, 4) as u8;
    let mut search: Vec<u8> = (0..ndirs).collect();
    // shuffle
    for i in (1..search.len()).rev() {
        let j = rng.below(i as u64 + 1) as usize;
        search.swap(i, j);
    }
    let ninc = match rng.below(10) {
        0 => 0,
        1..=3 => 1,
        4..=6 => 2,
        _ => rng.range(3, if thorough { 7 } else { 5 }) as usize,
    };
    let ndata = rng.below(4) as usize;
    // two name pools: unrelated names, and names one of which is a path suffix of another
    // (sub/a.clinc vs a.clinc), drawn in random order so the longer one may be met first
    let suffixy = rng.chance(1, 2);
    // a third pool: names that begin like the dialect pseudo-files (`*standard-cl-21*`) but
    // are ordinary files
    let starry = rng.chance(1, 5);
    // a fourth pool: names spelt relative to "here" (`./x`, `sub/../x`)
    let dotty = !starry && rng.chance(1, 6);
    let mut names: Vec<&str> = if dotty {
        vec!["./a.clinc", "b.clinc", "./sub/c.clib", "sub/../d.clinc", "e.clinc", "./f.clib"]
    } else if starry {
        vec!["*consts*", "a.clinc", "*k.clib", "sub/*s*.clinc", "b.clinc", "*standard-cl-20*", "c.clib"]
    } else if suffixy {
        vec!["a.clinc", "sub/a.clinc", "lib/sub/a.clinc", "b.clinc", "sub/b.clinc", "c.clib", "x/c.clib"]
    } else {
        vec!["a.clinc", "b.clinc", "c.clib", "sub/d.clinc", "e.clinc", "sub/f.clib", "g.clinc"]
    };
    let mut dnames: Vec<&str> = if dotty {
        vec!["./data.bin", "blob.hex", "sub/../t.sexp", "./sub/more.dat"]
    } else if starry {
        vec!["*blob*.bin", "data.bin", "sub/*t*.sexp", "blob.hex"]
    } else if suffixy {
        vec!["data.bin", "sub/data.bin", "blob.hex", "x/blob.hex"]
    } else {
        vec!["data.bin", "blob.hex", "tree.sexp", "sub/more.dat"]
    };
    for i in (1..names.len()).rev() {
        let j = rng.below(i as u64 + 1) as usize;
        names.swap(i, j);
    }
    for i in (1..dnames.len()).rev() {
        let j = rng.below(i as u64 + 1) as usize;
        dnames.swap(i, j);
    }
    let mut datas = Vec::new();
    for d in 0..ndata {
        let kind = rng.below(3) as u8;
        datas.push(Data {
            name: dnames[d % dnames.len()].to_string(),
            kind,
            copies: gen_copies(rng, ndirs, kind == 0),
        });
    }
    let mut incs: Vec<Inc> = Vec::new();
    for i in 0..ninc {
        incs.push(Inc {
            name: names[i % names.len()].to_string(),
            copies: gen_copies(rng, ndirs, false),
            refs: vec![],
        });
    }
    // acyclic: file i may only refer to files j > i  (depth <= 4 by construction of ninc)
    let mut referenced = vec![false; ninc];
    for i in 0..ninc {
        let mut refs = Vec::new();
        for j in (i + 1)..ninc {
            if rng.chance(2, 5) && i + 1 < 5 {
                refs.push(Ref::Inc {
                    i: j,
                    quoted: rng.chance(1, 3),
                });
                referenced[j] = true;
            }
        }
        if ndata > 0 && rng.chance(1, 3) {
            refs.push(Ref::Embed {
                d: rng.below(ndata as u64) as usize,
            });
        }
        incs[i].refs = refs;
    }
    let mut main_refs = Vec::new();
    for i in 0..ninc {
        // everything not reachable through another include is included from main; some
        // nested ones are included from main as well
        if !referenced[i] || rng.chance(1, 5) {
            main_refs.push(Ref::Inc {
                i,
                quoted: rng.chance(1, 3),
            });
        }
    }
    for d in 0..ndata {
        if rng.chance(1, 2) {
            main_refs.push(Ref::Embed { d });
        }
    }
    // order of forms in main
    for i in (1..main_refs.len()).rev() {
        let j = rng.below(i as u64 + 1) as usize;
        main_refs.swap(i, j);
    }
    // an include file that is reachable only from inside a nested `(mod ...)` expression
    let mut nested_mod = Vec::new();
    if rng.chance(1, 4) {
        incs.push(Inc {
            name: if rng.chance(1, 2) { "nm.clinc".to_string() } else { "sub/nm.clinc".to_string() },
            copies: gen_copies(rng, ndirs, false),
            refs: vec![],
        });
        nested_mod.push(incs.len() - 1);
    } else if ninc > 0 && rng.chance(1, 8) {
        nested_mod.push(rng.below(ninc as u64) as usize);
    }
    let mut hidden = Vec::new();
    if rng.chance(1, 4) {
        let kind = rng.range(1, 4) as u8;
        // half of the time the hidden file shares its own name (last path component) with
        // an include the program also has in the open, in another directory: a listing that
        // merges what it found by anything coarser than the full resolved name loses one
        let pool_name = ["hid.clinc", "sub/hid.clinc", "k.clib"][rng.below(3) as usize].to_string();
        let namesake = if ninc > 0 && rng.chance(1, 2) {
            let e = incs[rng.below(ninc as u64) as usize].name.clone();
            let base = e.rsplit('/').next().unwrap_or(&e).to_string();
            let cand = if e.contains('/') { base } else { format!("sub/{}", base) };
            // no second spelling of a file the layout already has: the oracle's clause (c)
            // tidies names lexically, which is only sound while `x/../n` and `n` are not both
            // names of the pool (a directory `x` need not exist where only `n` has a copy)
            if cand.is_empty()
                || e.starts_with('.')
                || e.contains("..")
                || incs.iter().any(|i| tidy("", &i.name) == tidy("", &cand))
            {
                None
            } else {
                Some(cand)
            }
        } else {
            None
        };
        incs.push(Inc {
            name: namesake.unwrap_or(pool_name),
            copies: gen_copies(rng, ndirs, false),
            refs: vec![],
        });
        hidden.push((kind, incs.len() - 1));
    }
    let incs_len = incs.len();
    let dotted: Vec<bool> = incs
        .iter()
        .map(|i| i.name.starts_with("./") || i.name.contains("/../"))
        .collect();
    // names spelt relative to "here" matter most where two lookups exist side by side:
    // classic programs compiled without options
    let (dotty_classic, dotty_entry) = (dotty && rng.chance(1, 2), dotty && rng.chance(1, 2));
    let ndata_all = datas.len();
    let mut w = Workload {
        sigil: if dotty_classic {
            0
        } else {
            rng.below(SIGILS.len() as u64) as u8
        },
        ndirs,
        search,
        incs,
        datas,
        main_refs,
        entry: if dotty_entry { rng.range(2, 3) as u8 } else { rng.below(5) as u8 },
        transient_pm: if rng.chance(1, 10) { 150 } else { 0 },
        nested_mod,
        hidden,
        symlinked: if rng.chance(1, 5) {
            vec![rng.below(ndirs as u64) as u8]
        } else {
            vec![]
        },
        overlay: if ninc > 0 && rng.chance(1, 4) {
            vec![rng.below(ninc as u64) as usize]
        } else {
            vec![]
        },
        starred: if rng.chance(1, 6) {
            vec![rng.below(ndirs as u64) as u8]
        } else {
            vec![]
        },
        dir_forms: (0..ndirs)
            .map(|_| if rng.chance(1, 4) { rng.range(1, 3) as u8 } else { 0 })
            .collect(),
        prelude: None,
        beside_main: if dotty && rng.chance(2, 3) {
            // names spelt relative to "here" get their decoy where "here" would be
            (0..incs_len).filter(|i| dotted[*i]).collect()
        } else if ninc > 0 && rng.chance(1, 5) {
            vec![rng.below(ninc as u64) as usize]
        } else {
            vec![]
        },
        empty_entry: None,
    };
    if rng.chance(1, 5) {
        let at = rng.below(ndirs as u64 + 1) as u8;
        let incs: Vec<usize> = (0..ninc.min(incs_len)).filter(|_| rng.chance(2, 3)).collect();
        let datas: Vec<usize> = (0..ndata_all).filter(|_| rng.chance(1, 2)).collect();
        w.empty_entry = Some((at, incs, datas));
        // two lookups exist side by side for classic programs
        if rng.chance(1, 2) {
            w.sigil = 0;
        }
    }
    w
}

// ---------------------------------------------------------------------------------------
// a caller-supplied resolver: files present in an overlay directory win over the search path
// (what a language server with unsaved buffers or a build sandbox does)
// ---------------------------------------------------------------------------------------

#[derive(Clone)]
struct OverlayOpts {
    opts: Rc<dyn chialisp::compiler::comptypes::CompilerOpts>,
    overlay: String,
}

impl chialisp::compiler::comptypes::HasCompilerOptsDelegation for OverlayOpts {
    fn compiler_opts(&self) -> Rc<dyn chialisp::compiler::comptypes::CompilerOpts> {
        self.opts.clone()
    }
    fn update_compiler_opts<
        F: FnOnce(
            Rc<dyn chialisp::compiler::comptypes::CompilerOpts>,
        ) -> Rc<dyn chialisp::compiler::comptypes::CompilerOpts>,
    >(
        &self,
        f: F,
    ) -> Rc<dyn chialisp::compiler::comptypes::CompilerOpts> {
        Rc::new(OverlayOpts {
            opts: f(self.opts.clone()),
            overlay: self.overlay.clone(),
        })
    }
    fn override_read_new_file(
        &self,
        inc_from: String,
        filename: String,
    ) -> Result<(String, Vec<u8>), chialisp::compiler::comptypes::CompileErr> {
        if !filename.starts_with('*') {
            let p = format!("{}/{}", self.overlay, filename);
            if let Ok(content) = fs::read(&p) {
                return Ok((p, content));
            }
        }
        self.opts.read_new_file(inc_from, filename)
    }
}

pub const OVERLAY: &str = "r/ov";

// ---------------------------------------------------------------------------------------
// actor
// ---------------------------------------------------------------------------------------

fn actor_body(w: Workload) -> Box<dyn FnOnce(&Actor) + Send + 'static> {
    Box::new(move |actor: &Actor| {
        if let Some(p) = w.prelude.as_ref() {
            // run_one has laid out the prelude; its pair is history only
            run_pair(actor, p, false);
            let _g = seam::HarnessGuard::new();
            setup_dir(&w);
        }
        run_pair(actor, &w, true);
    })
}

/// one listing and one compile of layout `w` (already on disk); only a judged pair tells the
/// policy where its phases begin and what it returned
fn run_pair(actor: &Actor, w: &Workload, judged: bool) {
    let label = |l: &'static str| -> &'static str {
        if judged {
            l
        } else {
            match l {
                "list" => "pre-list",
                "listed" => "pre-listed",
                _ => "pre-compiled",
            }
        }
    };
    {
        use chialisp::classic::clvm_tools::clvmc;
        use chialisp::compiler::compiler::DefaultCompilerOpts;
        use chialisp::compiler::comptypes::CompilerOpts;
        use chialisp::compiler::preprocessor::gather_dependencies;
        use chialisp::compiler::sexp::decode_string;
        let search: Vec<String> = search_list(w);
        let text = match fs::read_to_string(MAIN) {
            Ok(t) => t,
            Err(_) => {
                actor.boundary(label("listed"), "err:cannot read main");
                actor.boundary(label("compiled"), "err");
                return;
            }
        };
        actor.boundary(label("list"), "");
        // entry 3: both steps through the command line front end (`run -M -i .. file`,
        // then `run -i .. file`), i.e. cmds::launch_tool with its own option handling
        let cli = |dash_m: bool| -> String {
            use chialisp::classic::clvm::__type_compatibility__::Stream;
            let mut args: Vec<String> = vec!["run".to_string()];
            if dash_m {
                args.push("-M".to_string());
            }
            for d in search.iter() {
                args.push("-i".to_string());
                args.push(d.clone());
            }
            args.push(MAIN.to_string());
            let mut out = Stream::new(None);
            chialisp::classic::clvm_tools::cmds::launch_tool(&mut out, &args, "run", 2);
            String::from_utf8_lossy(out.get_value().data()).into_owned()
        };
        let py_list = if w.entry == 4 {
            crate::pybind::check_dependencies(MAIN, &search)
        } else {
            None
        };
        let entry = if w.entry == 4 && py_list.is_none() { 0 } else { w.entry };
        let info = if let Some(l) = py_list {
            let _g = seam::HarnessGuard::new();
            match l {
                Ok(names) => format!("ok:{}", serde_json::to_string(&names).unwrap()),
                Err(e) => format!("err:{}", e),
            }
        } else if entry == 3 {
            let text = cli(true);
            let _g = seam::HarnessGuard::new();
            let lines: Vec<String> = text
                .lines()
                .map(|l| l.trim().to_string())
                .filter(|l| !l.is_empty())
                .collect();
            // an error is printed as "<location>: <message>"
            if lines.iter().any(|l| l.contains(": ") || l.starts_with("FAIL")) {
                format!("err:{}", lines.join(" | "))
            } else {
                format!("ok:{}", serde_json::to_string(&lines).unwrap())
            }
        } else {
            let listing = {
                let opts: Rc<dyn CompilerOpts> = Rc::new(DefaultCompilerOpts::new(MAIN));
                let opts = opts.set_search_paths(&search);
                let opts: Rc<dyn CompilerOpts> = if entry == 0 && !w.overlay.is_empty() {
                    Rc::new(OverlayOpts {
                        opts,
                        overlay: OVERLAY.to_string(),
                    })
                } else {
                    opts
                };
                gather_dependencies(opts, MAIN, &text)
            };
            let _g = seam::HarnessGuard::new();
            match &listing {
                Ok(l) => {
                    let names: Vec<String> = l.iter().map(|d| decode_string(&d.name)).collect();
                    format!("ok:{}", serde_json::to_string(&names).unwrap())
                }
                Err(e) => format!("err:{}: {}", e.0, e.1),
            }
        };
        actor.boundary(label("listed"), &info);
        let ok = match entry {
            4 => matches!(
                crate::pybind::compile_clvm(MAIN, "r/out.hex", &search),
                Some(Ok(_))
            ),
            3 => {
                let out = cli(false);
                out.trim_start().starts_with('(')
            }
            2 => {
                let mut syms = HashMap::new();
                clvmc::compile_clvm(MAIN, "r/out.hex", &search, &mut syms).is_ok()
            }
            e => {
                let mut allocator = clvmr::allocator::Allocator::new();
                let opts: Rc<dyn CompilerOpts> = Rc::new(DefaultCompilerOpts::new(MAIN));
                let opts = opts.set_search_paths(&search);
                let opts: Rc<dyn CompilerOpts> = if e == 0 && !w.overlay.is_empty() {
                    Rc::new(OverlayOpts {
                        opts,
                        overlay: OVERLAY.to_string(),
                    })
                } else {
                    opts
                };
                let mut syms = HashMap::new();
                clvmc::compile_clvm_text(&mut allocator, opts, &mut syms, &text, MAIN, e == 0)
                    .is_ok()
            }
        };
        actor.boundary(label("compiled"), if ok { "ok" } else { "err" });
    }
}

// ---------------------------------------------------------------------------------------
// policy
// ---------------------------------------------------------------------------------------

pub struct C18Policy {
    w: Workload,
    denied: Vec<String>,
    pub probes: Probes,
    pub listed: Option<Result<Vec<String>, String>>,
    pub compiled_ok: Option<bool>,
    pub reads: Vec<String>,
    pub nontrivial: bool,
    pub key: u64,
    pub faulted: bool,
}

fn ident(path: &str) -> Option<(u64, u64)> {
    fs::metadata(path).ok().map(|m| (m.dev(), m.ino()))
}

impl Policy for C18Policy {
    fn check(&mut self, _ctx: &StepCtx) -> Result<(), Violation> {
        Ok(())
    }
    fn decide(&mut self, _actor: usize, op: &Op, tape: &mut Tape, _world: &Arc<World>) -> Decision {
        match op.kind {
            OpKind::Boundary => {
                match op.path.as_str() {
                    "listed" => {
                        self.listed = Some(if let Some(j) = op.path2.strip_prefix("ok:") {
                            Ok(serde_json::from_str(j).unwrap_or_default())
                        } else {
                            Err(op.path2.clone())
                        });
                    }
                    "compiled" => self.compiled_ok = Some(op.path2 == "ok"),
                    _ => {}
                }
                Decision::proceed()
            }
            OpKind::OpenRead => {
                if self.denied.iter().any(|d| *d == op.path) {
                    self.probes.fault("static_unreadable_file_EACCES");
                    return Decision {
                        action: Action::Fail(libc::EACCES),
                        next_preempt: 0,
                    };
                }
                if self.w.transient_pm > 0 && tape.chance("tfault", self.w.transient_pm as u32, 1000)
                {
                    self.faulted = true;
                    let k = tape.choose("tkind", &[1, 1]);
                    self.probes
                        .fault(["transient_open_EINTR", "transient_open_EIO"][k]);
                    return Decision {
                        action: Action::Fail([libc::EINTR, libc::EIO][k]),
                        next_preempt: 0,
                    };
                }
                Decision::proceed()
            }
            OpKind::Read => {
                if self.w.transient_pm > 0 && tape.chance("tfault", self.w.transient_pm as u32, 1000)
                {
                    self.faulted = true;
                    let k = tape.choose("tkind", &[1, 1]);
                    self.probes
                        .fault(["transient_read_EINTR", "transient_read_EIO"][k]);
                    return Decision {
                        action: Action::Fail([libc::EINTR, libc::EIO][k]),
                        next_preempt: 0,
                    };
                }
                Decision::proceed()
            }
            _ => Decision::proceed(),
        }
    }

    fn finish(&mut self, _world: &Arc<World>, events: &[Event]) -> Result<(), Violation> {
        let viol = |inv: &str, msg: String| Violation {
            invariant: inv.to_string(),
            message: msg,
            step: events.len() as u32,
        };
        // files whose contents the compile phase read: open succeeded and a read returned >= 0
        let mut phase = 0; // 0 before listing, 1 listing, 2 compile
        let mut fdmap: HashMap<i32, String> = HashMap::new();
        let mut reads: BTreeSet<String> = BTreeSet::new();
        let mut consulted_decoy = false;
        for e in events {
            match e.kind {
                OpKind::Boundary => match e.path.as_str() {
                    "list" => phase = 1,
                    "listed" => phase = 2,
                    "compiled" => phase = 3,
                    _ => {}
                },
                OpKind::OpenRead if phase == 2 => {
                    if e.ret >= 0 {
                        fdmap.insert(e.ret as i32, e.path.clone());
                    } else {
                        fdmap.remove(&(e.ret as i32));
                    }
                    if self.denied.contains(&e.path) || fs::metadata(&e.path).map(|m| m.is_dir()).unwrap_or(false) {
                        consulted_decoy = true;
                    }
                }
                OpKind::Read if phase == 2 => {
                    if e.ret >= 0 {
                        if let Some(p) = fdmap.get(&e.fd) {
                            reads.insert(p.clone());
                        }
                    }
                }
                _ => {}
            }
        }
        reads.remove(MAIN);
        self.reads = reads.iter().cloned().collect();
        if consulted_decoy {
            self.probes.hit("decoy_or_unreadable_copy_consulted_by_compile");
        }
        let listed = match &self.listed {
            Some(Ok(l)) => l.clone(),
            Some(Err(_)) => {
                self.probes.hit("listing_returned_error");
                if self.compiled_ok == Some(true) {
                    self.probes.hit("listing_error_but_compile_ok");
                }
                return Ok(());
            }
            None => return Ok(()),
        };
        self.probes.hit("listing_ok");
        if self.compiled_ok != Some(true) {
            self.probes.hit("compile_failed_no_claim");
            return Ok(());
        }
        self.probes.hit("listing_and_compile_ok");
        if self.faulted {
            self.probes.hit("transient_fault_run_not_judged");
            return Ok(());
        }
        // non-trivial rule
        let through_other = {
            // a file read that main does not refer to directly
            let direct: Vec<&str> = self
                .w
                .main_refs
                .iter()
                .map(|r| match r {
                    Ref::Inc { i, .. } => self.w.incs[*i].name.as_str(),
                    Ref::Embed { d } => self.w.datas[*d].name.as_str(),
                })
                .collect();
            let nested: Vec<&str> = self
                .w
                .nested_mod
                .iter()
                .chain(self.w.hidden.iter().map(|(_, i)| i))
                .filter_map(|i| self.w.incs.get(*i).map(|x| x.name.as_str()))
                .collect();
            self.reads.iter().any(|p| {
                !direct.iter().any(|d| p.ends_with(&format!("/{}", d)))
                    || nested.iter().any(|d| p.ends_with(&format!("/{}", d)))
            })
        };
        let embed_read = self
            .reads
            .iter()
            .any(|p| self.w.datas.iter().any(|d| p.ends_with(&format!("/{}", d.name))));
        if through_other {
            self.probes.hit("file_read_only_through_another_include");
        }
        if embed_read {
            self.probes.hit("embedded_file_read");
        }
        self.nontrivial =
            (self.reads.len() >= 2 && (through_other || embed_read)) || consulted_decoy;
        let mut h = FNV_INIT;
        fnv1a(&mut h, serde_json::to_string(&self.w).unwrap().as_bytes());
        self.key = h;

        // (a) every listed name resolves to an existing file
        let mut listed_ids: Vec<(u64, u64)> = Vec::new();
        for l in listed.iter() {
            match fs::metadata(l) {
                Ok(m) if m.is_file() => listed_ids.push((m.dev(), m.ino())),
                _ => {
                    return Err(viol(
                        "C18.a-listed-name-unresolvable",
                        format!("listed dependency {:?} does not resolve to a file", l),
                    ))
                }
            }
        }
        // (b) every file read by the compile is listed.  A mismatch about an include that
        // only exists after the expansion of an old-style macro (hidden kind 4) is reported
        // last, after clause (c), so that it can never mask another violation of the run.
        let macro_incs: Vec<String> = self
            .w
            .hidden
            .iter()
            .filter(|(k, _)| *k == 4)
            .filter_map(|(_, i)| self.w.incs.get(*i))
            .flat_map(|inc| {
                self.w
                    .search
                    .iter()
                    .map(|d| tidy(&plain_dir(&self.w, *d), &inc.name))
                    .collect::<Vec<_>>()
            })
            .collect();
        let mut later: Option<Violation> = None;
        for p in self.reads.iter() {
            let id = ident(p);
            if id.is_none() || !listed_ids.contains(&id.unwrap()) {
                let v = viol(
                    "C18.b-read-but-not-listed",
                    format!(
                        "the compile read {:?}, which the dependency listing {:?} does not name",
                        p, listed
                    ),
                );
                if macro_incs.contains(p) {
                    later.get_or_insert(v);
                } else {
                    return Err(v);
                }
            }
        }
        // (c) no listed file is shadowed by a readable regular file earlier in the path
        let dirs: Vec<String> = self
            .w
            .search
            .iter()
            .map(|d| search_dir(&self.w, *d).trim_end_matches('/').to_string())
            .collect();
        let plain: Vec<String> = self.w.search.iter().map(|d| plain_dir(&self.w, *d)).collect();
        for l in listed.iter() {
            if let Some(j) = dirs.iter().position(|d| l.starts_with(&format!("{}/", d))) {
                let name = l[dirs[j].len() + 1..].trim_start_matches('/');
                for d in plain[..j].iter() {
                    let cand = tidy(d, name);
                    let readable = fs::metadata(&cand).map(|m| m.is_file()).unwrap_or(false)
                        && !self.denied.contains(&cand);
                    if readable {
                        return Err(viol(
                            "C18.c-listed-file-shadowed",
                            format!(
                                "listed dependency {:?} is shadowed by {:?}, earlier in the search path",
                                l, cand
                            ),
                        ));
                    }
                }
            }
        }
        if let Some(v) = later {
            return Err(v);
        }
        self.probes.hit("oracle_evaluated");
        if self.w.empty_entry.is_some() {
            self.probes.hit("oracle_evaluated_with_empty_search_path_entry");
            if self.reads.iter().any(|p| !p.contains('/')) {
                self.probes.hit("file_read_from_current_directory_through_empty_entry");
            }
        }
        self.probes.hit(&format!(
            "oracle_evaluated_entry_{}",
            [
                "compile_clvm_text_with_opts",
                "compile_clvm_text_plain",
                "compile_clvm_file",
                "cli_run_M",
                if crate::pybind::available() {
                    "python_binding"
                } else {
                    "compile_clvm_text_with_opts"
                }
            ][self.w.entry as usize % 5]
        ));
        Ok(())
    }
}

pub fn run_one(w: &Workload, tape: &mut Tape, entropy_seed: u64) -> Result<RunReport, String> {
    match w.prelude.as_ref() {
        Some(p) => setup_dir(p),
        None => setup_dir(w),
    }
    let world = seam::new_world(1, false, 1_000_000_000_000);
    let specs = vec![ActorSpec {
        name: "compiler".to_string(),
        entropy_seed: mix(entropy_seed, 0),
        skew_ns: 0,
        stack_bytes: 256 << 20,
        body: actor_body(w.clone()),
    }];
    let mut policy = C18Policy {
        w: w.clone(),
        denied: denied_paths(w),
        probes: Probes::default(),
        listed: None,
        compiled_ok: None,
        reads: vec![],
        nontrivial: false,
        key: 0,
        faulted: false,
    };
    let out = sched::run(
        world,
        specs,
        tape,
        &mut policy,
        20_000,
        Duration::from_secs(120),
    )
    .map_err(|e| format!("{:?}", e))?;
    let _ = fs::remove_dir_all(DIR);
    let log_hash = sched::hash_events(&out.events);
    let detail = serde_json::json!({
        "main": render_main(w),
        "search_path": w.search.iter().map(|d| search_dir(w, *d)).collect::<Vec<_>>(),
        "listing": match &policy.listed { Some(Ok(l)) => serde_json::json!(l), Some(Err(e)) => serde_json::json!({"error": e}), None => serde_json::json!(null) },
        "compile_ok": policy.compiled_ok,
        "files_read_by_compile": policy.reads,
    });
    // keep the replay file readable: only file-system events, no boundaries' long payloads
    Ok(RunReport {
        violation: out.violation,
        steps: out.events.len() as u32,
        events: out.events,
        tape: tape.rec.clone(),
        distinct_key: policy.key,
        log_hash,
        nontrivial: policy.nontrivial,
        truncated: out.truncated,
        sim_ns: 0,
        probes: policy.probes.clone(),
        panics: out.panics,
        detail,
        extra_keys: vec![],
    })
}

// ---------------------------------------------------------------------------------------
// Prop
// ---------------------------------------------------------------------------------------

pub struct C18;

fn drop_inc(w: &Workload, i: usize) -> Workload {
    // remove logical include i, renumbering references
    let mut c = w.clone();
    c.incs.remove(i);
    let fix = |refs: &mut Vec<Ref>| {
        refs.retain(|r| !matches!(r, Ref::Inc { i: j, .. } if *j == i));
        for r in refs.iter_mut() {
            if let Ref::Inc { i: j, .. } = r {
                if *j > i {
                    *j -= 1;
                }
            }
        }
    };
    fix(&mut c.main_refs);
    for inc in c.incs.iter_mut() {
        fix(&mut inc.refs);
    }
    c.nested_mod.retain(|j| *j != i);
    for j in c.nested_mod.iter_mut() {
        if *j > i {
            *j -= 1;
        }
    }
    c.overlay.retain(|j| *j != i);
    for j in c.overlay.iter_mut() {
        if *j > i {
            *j -= 1;
        }
    }
    c.beside_main.retain(|j| *j != i);
    for j in c.beside_main.iter_mut() {
        if *j > i {
            *j -= 1;
        }
    }
    if let Some((_, incs, _)) = c.empty_entry.as_mut() {
        incs.retain(|j| *j != i);
        for j in incs.iter_mut() {
            if *j > i {
                *j -= 1;
            }
        }
    }
    c.hidden.retain(|(_, j)| *j != i);
    for (_, j) in c.hidden.iter_mut() {
        if *j > i {
            *j -= 1;
        }
    }
    c
}

fn drop_data(w: &Workload, d: usize) -> Workload {
    let mut c = w.clone();
    c.datas.remove(d);
    let fix = |refs: &mut Vec<Ref>| {
        refs.retain(|r| !matches!(r, Ref::Embed { d: j } if *j == d));
        for r in refs.iter_mut() {
            if let Ref::Embed { d: j } = r {
                if *j > d {
                    *j -= 1;
                }
            }
        }
    };
    fix(&mut c.main_refs);
    for inc in c.incs.iter_mut() {
        fix(&mut inc.refs);
    }
    if let Some((_, _, datas)) = c.empty_entry.as_mut() {
        datas.retain(|j| *j != d);
        for j in datas.iter_mut() {
            if *j > d {
                *j -= 1;
            }
        }
    }
    c
}

impl Prop for C18 {
    type W = Workload;
    fn id() -> &'static str {
        "C18"
    }
    fn init_process() {
        crate::pybind::init();
        // force the compiler's lazy statics outside any actor
        let mut allocator = clvmr::allocator::Allocator::new();
        use chialisp::compiler::compiler::DefaultCompilerOpts;
        use chialisp::compiler::comptypes::CompilerOpts;
        for sig in SIGILS.iter() {
            let text = if sig.is_empty() {
                "(mod (X) (defun f (A) (+ A 1)) (f X))".to_string()
            } else {
                format!("(mod (X) (include {}) (defun f (A) (+ A 1)) (f X))", sig)
            };
            let opts: Rc<dyn CompilerOpts> = Rc::new(DefaultCompilerOpts::new("warm.clsp"));
            let mut syms = HashMap::new();
            let _ = chialisp::classic::clvm_tools::clvmc::compile_clvm_text(
                &mut allocator,
                opts,
                &mut syms,
                &text,
                "warm.clsp",
                true,
            );
        }
    }
    fn generate(rng: &mut Rng, thorough: bool, _idx: u64) -> Workload {
        generate(rng, thorough)
    }
    fn run(w: &Workload, tape: &mut Tape, ent: u64) -> Result<RunReport, String> {
        run_one(w, tape, ent)
    }
    fn shrink(w: &Workload) -> Vec<Workload> {
        let mut out = Vec::new();
        for i in 0..w.incs.len() {
            out.push(drop_inc(w, i));
        }
        for d in 0..w.datas.len() {
            out.push(drop_data(w, d));
        }
        for k in 0..w.main_refs.len() {
            let mut c = w.clone();
            c.main_refs.remove(k);
            out.push(c);
        }
        for i in 0..w.incs.len() {
            for k in 0..w.incs[i].refs.len() {
                let mut c = w.clone();
                c.incs[i].refs.remove(k);
                out.push(c);
            }
            if w.incs[i].copies.len() > 1 {
                for k in 0..w.incs[i].copies.len() {
                    let mut c = w.clone();
                    c.incs[i].copies.remove(k);
                    if c.incs[i].copies.iter().any(|(_, kk)| *kk == REAL) {
                        out.push(c);
                    }
                }
            }
        }
        for d in 0..w.datas.len() {
            if w.datas[d].copies.len() > 1 {
                for k in 0..w.datas[d].copies.len() {
                    let mut c = w.clone();
                    c.datas[d].copies.remove(k);
                    if c.datas[d].copies.iter().any(|(_, kk)| *kk == REAL || *kk == EMPTY) {
                        out.push(c);
                    }
                }
            }
        }
        if w.transient_pm > 0 {
            let mut c = w.clone();
            c.transient_pm = 0;
            out.push(c);
        }
        for k in 0..w.nested_mod.len() {
            let mut c = w.clone();
            c.nested_mod.remove(k);
            out.push(c);
        }
        for k in 0..w.hidden.len() {
            let mut c = w.clone();
            c.hidden.remove(k);
            out.push(c);
        }
        if !w.symlinked.is_empty() {
            let mut c = w.clone();
            c.symlinked.clear();
            out.push(c);
        }
        if !w.overlay.is_empty() {
            let mut c = w.clone();
            c.overlay.clear();
            out.push(c);
        }
        if !w.starred.is_empty() {
            let mut c = w.clone();
            c.starred.clear();
            out.push(c);
        }
        if w.dir_forms.iter().any(|f| *f != 0) {
            let mut c = w.clone();
            c.dir_forms.clear();
            out.push(c);
        }
        if !w.beside_main.is_empty() {
            let mut c = w.clone();
            c.beside_main.clear();
            out.push(c);
        }
        if let Some((at, incs, datas)) = &w.empty_entry {
            let mut c = w.clone();
            c.empty_entry = None;
            out.push(c);
            if !datas.is_empty() {
                let mut c = w.clone();
                c.empty_entry = Some((*at, incs.clone(), vec![]));
                out.push(c);
            }
            if incs.len() > 1 {
                for k in 0..incs.len() {
                    let mut c = w.clone();
                    let mut v = incs.clone();
                    v.remove(k);
                    c.empty_entry = Some((*at, v, datas.clone()));
                    out.push(c);
                }
            }
        }
        if w.prelude.is_some() {
            let mut c = w.clone();
            c.prelude = None;
            out.push(c);
        }
        if w.entry != 0 {
            let mut c = w.clone();
            c.entry = 0;
            out.push(c);
        }
        for r in 0..w.main_refs.len() {
            if let Ref::Inc { i, quoted: true } = w.main_refs[r] {
                let mut c = w.clone();
                c.main_refs[r] = Ref::Inc { i, quoted: false };
                out.push(c);
            }
        }
        out
    }
    fn known_finding(w: &Workload, rep: &RunReport, known: &[KnownFinding]) -> Option<String> {
        classify_known(w, rep, known)
    }
    fn runs_for_tier(thorough: bool) -> u64 {
        if thorough {
            200_000
        } else {
            10_000
        }
    }
    fn determinism_runs() -> u64 {
        600
    }
    fn rule() -> &'static str {
        "one evaluation = one generated disk layout (1..4 search directories in a seeded order and spelling, one layout in five with an additional empty-string entry that names the current directory, where some of the files have copies of their own; include graph of depth 0..4 with plain and quoted includes, includes that include, embed-file bin/hex/sexp, every dialect sigil and none; the same relative name present with different contents in several directories; static disk faults: unreadable copy, directory or dangling symlink in place of a file, empty file) on which the real gather_dependencies and then a real compile entry point are run by one actor; every open/read of the compile phase is observed at the libc seam and compared by (device, inode) with the listing. Non-trivial = listing and compile both succeeded, the run was judged, and the compile read >= 2 files besides the main file with at least one of them reached only through another include or through embed-file, or a decoy / unreadable copy was actually opened by the compile. Distinct = distinct layouts (hash of the complete workload description) among non-trivial runs."
    }
    fn assumptions() -> Vec<String> {
        vec![
            "no schedule is involved: one actor, the storage seam only".to_string(),
            "unreadable files are simulated at the seam (open fails with EACCES) because the sandbox runs as root".to_string(),
            "a failing listing or a failing compile makes no claim; runs with transient (non-static) read faults are executed but not judged".to_string(),
            "files are compared by (device, inode), not by spelling".to_string(),
        ]
    }
    fn real_vs_stub() -> serde_json::Value {
        serde_json::json!({
            "real": ["chialisp::compiler::preprocessor::gather_dependencies", "cmds::launch_tool (`run -M -i ..`, `run -i ..`) with its argument parsing", "clvmc::compile_clvm_text with and without injected CompilerOpts, clvmc::compile_clvm", "DefaultCompilerOpts::read_new_file, classic _read / full_path_for_filename / embed reader", "std::fs, kernel tmpfs"],
            "simulated": ["static and transient open/read faults", "entropy (getrandom)"],
            "python_binding": if crate::pybind::available() { "real: src/py/api.rs `check_dependencies` and `compile_clvm` (pyo3 0.24, CPython 3.11 embedded in the worker) for entry 4, one layout in five" } else { "not in this build (built with --no-default-features): entry 4 runs entry 0" },
            "not_run": ["wasm bindings"]
        })
    }
    fn bounds(thorough: bool) -> serde_json::Value {
        serde_json::json!({
            "search_dirs": "1..4",
            "include_files": if thorough { "0..7" } else { "0..5" },
            "include_depth": "0..4",
            "embedded_files": "0..3"
        })
    }
}
