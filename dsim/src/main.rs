mod c05;
mod c05_known;
mod c18;
mod c19;
mod common;
mod driver;
mod gen_prog;
mod prng;
mod procsim;
mod pybind;
mod sched;
mod seam;
mod tape;

use common::Prop;
use driver::CheckOpts;

#[global_allocator]
static GLOBAL: seam::CountingAlloc = seam::CountingAlloc;

fn usage() -> ! {
    eprintln!(
        "usage:\n  dsim check <C05|C18|C19> [--tier quick|thorough] [--seed N] [--workers N] [--runs N] [--max-seconds N] [--no-evidence]\n  dsim replay <file>\n  dsim determinism <id> [--runs N] [--tier ..] [--seed N]\n  (internal) dsim worker ..., dsim determinism-worker ..."
    );
    std::process::exit(2)
}

fn flag(args: &[String], name: &str) -> Option<String> {
    args.iter()
        .position(|a| a == name)
        .and_then(|i| args.get(i + 1).cloned())
}

fn env_seed() -> u64 {
    std::env::var("VERIF_SEED")
        .ok()
        .and_then(|s| s.trim().parse::<u64>().ok())
        .unwrap_or(driver::DEFAULT_SEED)
}

fn dispatch<P: Prop>(cmd: &str, args: &[String]) -> i32 {
    match cmd {
        "check" => {
            let tier = flag(args, "--tier")
                .or_else(|| std::env::var("VERIF_TIER").ok())
                .unwrap_or_else(|| "quick".to_string());
            let o = CheckOpts {
                verif_dir: flag(args, "--verif-dir").unwrap_or_else(|| {
                    std::env::current_dir()
                        .unwrap()
                        .to_string_lossy()
                        .into_owned()
                }),
                seed: flag(args, "--seed")
                    .and_then(|s| s.parse().ok())
                    .unwrap_or_else(env_seed),
                thorough: tier == "thorough",
                workers: flag(args, "--workers")
                    .and_then(|s| s.parse().ok())
                    .unwrap_or_else(|| {
                        std::thread::available_parallelism()
                            .map(|n| n.get() as u64)
                            .unwrap_or(4)
                            .min(16)
                    }),
                runs: flag(args, "--runs").and_then(|s| s.parse().ok()),
                max_seconds: flag(args, "--max-seconds")
                    .and_then(|s| s.parse().ok())
                    .unwrap_or(if tier == "thorough" { 3000 } else { 420 }),
                write_evidence: !args.iter().any(|a| a == "--no-evidence"),
            };
            driver::check::<P>(&o)
        }
        "worker" => {
            // worker <id> <verif_dir> <seed> <tier> <start> <stride> <total> <max_s>
            let g = |i: usize| args.get(i).cloned().unwrap_or_default();
            driver::worker::<P>(
                &g(2),
                g(3).parse().unwrap_or(1),
                g(4) == "thorough",
                g(5).parse().unwrap_or(0),
                g(6).parse().unwrap_or(1),
                g(7).parse().unwrap_or(0),
                g(8).parse().unwrap_or(60),
            )
        }
        "replay" => {
            // replay <id> <verif_dir> <file> [--expect]
            let g = |i: usize| args.get(i).cloned().unwrap_or_default();
            driver::replay::<P>(&g(2), &g(3), args.iter().any(|a| a == "--expect"))
        }
        "show-workload" => {
            let g = |i: usize| args.get(i).cloned().unwrap_or_default();
            driver::show_workload::<P>(
                g(2).parse().unwrap_or(driver::DEFAULT_SEED),
                g(3) == "thorough",
                g(4).parse().unwrap_or(0),
            )
        }
        "minimise" => {
            let g = |i: usize| args.get(i).cloned().unwrap_or_default();
            driver::minimise_file::<P>(
                &g(2),
                &g(3),
                flag(args, "--budget").and_then(|s| s.parse().ok()).unwrap_or(120),
            )
        }
        "determinism" => {
            let tier = flag(args, "--tier").unwrap_or_else(|| "quick".to_string());
            driver::determinism::<P>(
                flag(args, "--seed")
                    .and_then(|s| s.parse().ok())
                    .unwrap_or_else(env_seed),
                tier == "thorough",
                flag(args, "--runs").and_then(|s| s.parse().ok()).unwrap_or(500),
            )
        }
        "determinism-worker" => {
            let g = |i: usize| args.get(i).cloned().unwrap_or_default();
            driver::determinism_worker::<P>(
                g(2).parse().unwrap_or(1),
                g(3) == "thorough",
                g(4).parse().unwrap_or(0),
                g(5).parse().unwrap_or(0),
            )
        }
        _ => usage(),
    }
}

fn main() {
    let mut args: Vec<String> = std::env::args().skip(1).collect();
    if args.is_empty() {
        usage();
    }
    // code under test may panic; the default hook takes locks and prints
    std::panic::set_hook(Box::new(|_| {}));
    let cmd = args[0].clone();
    // `dsim replay <file>`: take the property from the file
    if (cmd == "replay" || cmd == "minimise") && args.len() >= 2 && std::path::Path::new(&args[1]).is_file() {
        let file = std::fs::canonicalize(&args[1])
            .unwrap()
            .to_string_lossy()
            .into_owned();
        let v: serde_json::Value =
            serde_json::from_str(&std::fs::read_to_string(&file).unwrap_or_default())
                .unwrap_or(serde_json::Value::Null);
        let id = v
            .get("property")
            .and_then(|p| p.as_str())
            .unwrap_or("")
            .to_string();
        let vd = std::env::current_dir()
            .unwrap()
            .to_string_lossy()
            .into_owned();
        let expect = args.iter().any(|a| a == "--expect");
        let budget = flag(&args, "--budget");
        args = vec![cmd.clone(), id, vd, file];
        if let Some(b) = budget {
            args.push("--budget".to_string());
            args.push(b);
        }
        if expect {
            args.push("--expect".to_string());
        }
    }
    if cmd == "c05-fresh" {
        std::process::exit(c05::fresh_main());
    }
    if cmd == "warmtest" {
        c05::warmtest();
        return;
    }
    let id = args.get(1).cloned().unwrap_or_default();
    let code = match id.as_str() {
        "C19" => dispatch::<c19::C19>(&cmd, &args),
        "C18" => dispatch::<c18::C18>(&cmd, &args),
        "C05" => dispatch::<c05::C05>(&cmd, &args),
        _ => usage(),
    };
    std::process::exit(code);
}
