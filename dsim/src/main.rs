mod c19;
mod prng;
mod sched;
mod seam;
mod tape;

use prng::{mix, Rng};
use tape::Tape;

#[global_allocator]
static GLOBAL: seam::CountingAlloc = seam::CountingAlloc;

fn sandbox_init() -> String {
    let base = std::env::var("DSIM_SANDBOX").unwrap_or_else(|_| {
        if std::path::Path::new("/dev/shm").is_dir() {
            "/dev/shm".to_string()
        } else {
            std::env::temp_dir().to_string_lossy().into_owned()
        }
    });
    let dir = format!("{}/dsim-{}", base, std::process::id());
    let _ = std::fs::remove_dir_all(&dir);
    std::fs::create_dir_all(&dir).expect("create sandbox");
    std::env::set_current_dir(&dir).expect("chdir sandbox");
    let canon = std::fs::canonicalize(&dir).unwrap();
    let s = canon.to_string_lossy().into_owned();
    seam::set_root(&s);
    s
}

fn main() {
    let args: Vec<String> = std::env::args().collect();
    std::panic::set_hook(Box::new(|_| {}));
    let root = sandbox_init();
    let seed: u64 = args.get(2).and_then(|s| s.parse().ok()).unwrap_or(1);
    let runs: u64 = args.get(3).and_then(|s| s.parse().ok()).unwrap_or(1000);
    let t0 = std::time::Instant::now();
    let mut viol = 0;
    let mut nontriv = 0;
    let mut hashes = std::collections::HashSet::new();
    let mut probes = c19::Probes::default();
    let mut steps = 0u64;
    for i in 0..runs {
        let rs = mix(seed, i);
        let mut rng = Rng::new(mix(rs, 1));
        let wl = c19::generate(&mut rng, false);
        let mut tape = Tape::generate(mix(rs, 2));
        match c19::run_one(&wl, &mut tape, mix(rs, 3)) {
            Ok(rep) => {
                steps += rep.steps as u64;
                probes.merge(&rep.probes);
                if rep.nontrivial {
                    nontriv += 1;
                    hashes.insert(rep.log_hash);
                }
                if let Some(v) = rep.violation {
                    viol += 1;
                    if viol <= 5 {
                        println!("run {} VIOL {:?}\n  wl={}", i, v, serde_json::to_string(&wl).unwrap());
                        for e in rep.events.iter() {
                            println!("   {:?}", e);
                        }
                    }
                }
            }
            Err(e) => {
                println!("run {} harness error {}", i, e);
                std::process::exit(2);
            }
        }
    }
    println!(
        "runs={} steps={} viol={} nontrivial={} distinct={} wall={:?}",
        runs, steps, viol, nontriv, hashes.len(), t0.elapsed()
    );
    println!("{}", serde_json::to_string_pretty(&probes).unwrap());
    let _ = std::env::set_current_dir("/");
    let _ = std::fs::remove_dir_all(&root);
}
