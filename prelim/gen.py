import random, sys
def expr(r, vars, depth, funs):
    if depth<=0 or r.random()<0.25:
        return r.choice(vars) if vars and r.random()<0.8 else str(r.randint(1,20))
    k=r.random()
    if k<0.35:
        op=r.choice(['+','*','-','logand','logior','sha256','concat'])
        return f"({op} {expr(r,vars,depth-1,funs)} {expr(r,vars,depth-1,funs)})"
    if k<0.5 and funs:
        f,n=r.choice(funs)
        return "("+f+" "+" ".join(expr(r,vars,depth-1,funs) for _ in range(n))+")"
    if k<0.65:
        return f"(if {expr(r,vars,depth-1,funs)} {expr(r,vars,depth-1,funs)} {expr(r,vars,depth-1,funs)})"
    if k<0.85:
        nb=r.randint(1,3); names=[f"v{r.randint(0,999)}" for _ in range(nb)]
        form=r.choice(['let','let*','assign'])
        if form=='assign':
            b=" ".join(f"{n} {expr(r,vars,depth-1,funs)}" for n in names)
            return f"(assign {b} {expr(r,vars+names,depth-1,funs)})"
        b=" ".join(f"({n} {expr(r,vars,depth-1,funs)})" for n in names)
        return f"({form} ({b}) {expr(r,vars+names,depth-1,funs)})"
    # repeated subexpr for CSE
    e=expr(r,vars,depth-1,funs)
    return f"(c {e} (c {e} {expr(r,vars,depth-1,funs)}))"
def prog(seed, sigil):
    r=random.Random(seed)
    nf=r.randint(1,5); funs=[]; out=[]
    for i in range(nf):
        n=r.randint(1,3); args=[f"a{i}_{j}" for j in range(n)]
        body=expr(r,args,r.randint(2,5),funs)
        kind=r.choice(['defun','defun','defun-inline'])
        out.append(f"(defun {'' if kind=='defun' else ''}f{i} ({' '.join(args)}) {body})" if kind=='defun' else f"(defun-inline f{i} ({' '.join(args)}) {body})")
        funs.append((f"f{i}",n))
    main=expr(r,['X','Y'],r.randint(2,5),funs)
    return f"(mod (X Y) (include {sigil}) {' '.join(out)} {main})"
if __name__=='__main__':
    n=int(sys.argv[1]); sig=sys.argv[2]
    for s in range(n):
        open(f"p{s}.clsp","w").write(prog(s,sig))
